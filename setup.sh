#!/bin/bash
# offline setup: third-party packages the checks need, from the local wheelhouse only
HERE="$(cd "$(dirname "${BASH_SOURCE[0]}")" && pwd)"
set -e
/venv/bin/pip install -q --no-index --find-links /opt/veriftools/wheels --target "$HERE/.deps" --upgrade hypothesis mpmath jsonschema
