"""
SPMD workloads for C06.  The same function runs (a) on every simulated rank in
the MPI simulation process and (b) once in a plain single-process interpreter;
the root rank's return value of (a) is compared with (b).

Return values are JSON-serialisable (arrays as nested lists).
"""

from __future__ import annotations

import threading
from pathlib import Path

import numpy as np

_EXEC_LOG = []
_EXEC_LOCK = threading.Lock()


def recorded_square(x, offset=0):
    with _EXEC_LOCK:
        _EXEC_LOG.append(x)
    return x * x + offset


def _arr(a):
    return np.asarray(a, dtype=float).tolist()


def _cf_summary(cf):
    out = {}
    for kind in ("dd", "dr", "rd", "rr"):
        m = getattr(cf, kind)
        if m is not None:
            out[kind] = {"counts": _arr(m.counts.counts), "w1": _arr(m.sum_weights.sum_weights1), "w2": _arr(m.sum_weights.sum_weights2)}
    return out


def workload(case: dict, root_dir: str, on_root_only_fs: bool = True):
    """returns a dict of results; every rank calls this with identical arguments"""
    import pandas as pd

    import yaw
    from vlib import pipeline as pl
    from yaw import AngularCoordinates, Catalog, Configuration, CorrData, CorrFunc
    from yaw.redshifts import HistData
    from yaw.utils import parallel

    kind = case["kind"]
    mw = case.get("max_workers")
    progress = bool(case.get("progress"))  # progress display (only the root rank prints)
    root = Path(root_dir)
    out = {}
    if kind == "iter":
        items = list(case["items"])
        with _EXEC_LOCK:
            pass
        res = list(parallel.iter_unordered(recorded_square, items, func_kwargs={"offset": case.get("offset", 0)}, max_workers=mw, rank0_node_only=bool(case.get("rank0_node_only"))))
        out["results"] = sorted(res)
        return out

    cfg = pl.make_config(case["cfg"])
    centers = AngularCoordinates(np.asarray(case["centers"], dtype=float))

    def make(name, cat):
        data = {"ra": np.asarray(cat["ra"], float), "dec": np.asarray(cat["dec"], float)}
        names = dict(ra_name="ra", dec_name="dec")
        if cat.get("w") is not None:
            data["w"] = np.asarray(cat["w"], float)
            names["weight_name"] = "w"
        if cat.get("z") is not None:
            data["z"] = np.asarray(cat["z"], float)
            names["redshift_name"] = "z"
        kw = dict(names, degrees=False, chunksize=case.get("chunksize"), max_workers=mw, progress=progress)
        if case.get("patch_mode") == "ids":
            data["pid"] = np.asarray(cat["pid"], dtype=np.int64)
            kw["patch_name"] = "pid"
        else:
            kw["patch_centers"] = centers
        if case.get("source") == "hdf5":
            path = root / f"{name}_input.hdf5"
            if parallel.on_root():
                import h5py

                with h5py.File(path, "w") as f:
                    for k, v in data.items():
                        f.create_dataset(k, data=v)
            parallel.COMM.Barrier()
            return Catalog.from_file(root / name, path, **kw)
        return Catalog.from_dataframe(root / name, pd.DataFrame(data), **kw)

    if kind == "create":
        cat = make("ref", case["cats"][0])
        out["keys"] = sorted(int(k) for k in cat.keys())
        out["num_records"] = [int(n) for n in cat.get_num_records()]
        out["centers"] = _arr(cat.get_centers().data)
        return out

    ref = make("ref", case["cats"][0])
    unk = make("unk", case["cats"][1])
    rand = make("rand", case["cats"][2])
    out["keys"] = sorted(int(k) for k in ref.keys())
    out["num_records"] = [int(n) for n in ref.get_num_records()]
    if kind == "reload":
        again = Catalog(root / "ref", max_workers=mw)
        out["reload_keys"] = sorted(int(k) for k in again.keys())
        out["reload_num_records"] = [int(n) for n in again.get_num_records()]
        out["reload_radii"] = _arr(again.get_radii().data)
        return out
    if kind == "trees":
        ref.build_trees(np.asarray(cfg.binning.edges), closed=str(cfg.binning.closed), max_workers=mw, progress=progress)
        parallel.COMM.Barrier()
        if parallel.on_root():
            from yaw.catalog.trees import BinnedTrees

            out["trees"] = {str(pid): [(int(t.num_records), float(t.sum_weights)) for t in BinnedTrees(patch).trees] for pid, patch in ref.items()}
        return out
    if kind == "hist":
        h = HistData.from_catalog(ref, cfg, max_workers=mw, progress=progress)
        out["hist_data"], out["hist_samples"] = _arr(h.data), _arr(h.samples)
        return out
    # full pipeline
    if case.get("auto"):
        cfs = yaw.autocorrelate(cfg, ref, rand, count_rr=True, max_workers=mw, progress=progress)
    else:
        cfs = yaw.crosscorrelate(cfg, ref, unk, unk_rand=rand, max_workers=mw, progress=progress)
    out["corrfunc"] = [_cf_summary(cf) for cf in cfs]
    if parallel.on_root():
        with np.errstate(all="ignore"):
            s = cfs[0].sample()
            den_member = cfs[0].rr if cfs[0].rr is not None else cfs[0].dr
            den = den_member.sample_patch_sum()
        out["sample_data"], out["sample_samples"] = _arr(s.data), _arr(s.samples)
        # where a normalisation is degenerate (see pipeline.normalisation_ok) the denominators are zeroed,
        # which makes the comparison skip those entries
        nd, ns_ = pl.normalisation_ok(cfs[0])
        out["den_data"], out["den_samples"] = _arr(np.where(nd, den.data, 0.0)), _arr(np.where(ns_, den.samples, 0.0))
    if kind == "pipeline_io":
        cfs[0].to_file(root / "cf.hdf5")
        back = CorrFunc.from_file(root / "cf.hdf5")
        out["io_corrfunc_equal"] = bool(back == cfs[0]) if parallel.on_root() else None
        out["io_corrfunc_rank_has"] = sorted(back.to_dict().keys())
        cfg.to_file(root / "config.yml")
        cfg2 = Configuration.from_file(root / "config.yml")
        out["io_config_edges"] = _arr(cfg2.binning.edges)
        if parallel.on_root():
            with np.errstate(all="ignore"):
                cd = cfs[0].sample()
        else:
            cd = None
        # every rank needs an object to call to_files on; non-root ranks use the broadcast copy
        cd = parallel.bcast_instance(cd) if parallel.use_mpi() else cd
        with np.errstate(all="ignore"):
            cd.to_files(root / "corrdata")
        cd2 = CorrData.from_files(root / "corrdata")
        out["io_corrdata_data"] = _arr(cd2.data)
        out["io_corrdata_samples_shape"] = list(np.asarray(cd2.samples).shape)
    return out
