"""
Drop-in replacement for the ``multiprocessing`` module *as used inside yaw*
(``multiprocessing.Pool(n)`` with ``imap_unordered`` / ``map``,
``multiprocessing.Manager().Queue()``, ``multiprocessing.Process(target=...)``)
in which the harness owns every scheduling decision:

* ``Pool(w).imap_unordered(f, it)``: each task is computed exactly once, with
  function, argument and result crossing a pickle boundary as in a real pool.
  The *completion order* is produced by simulating w workers with in-order
  dispatch: at each step the schedule tape picks which of the <= w running
  tasks finishes next.  These are exactly the orders a real pool of w workers
  can produce (chunksize 1), so no unreachable order is ever judged.
* ``Pool(w).map(f, items)``: items are *executed* in a tape-chosen order that a
  w-worker pool could produce (side effects such as queue.put happen in that
  order); results are returned in input order.
* ``Manager().Queue()``: FIFO queue whose items cross a pickle boundary.
* ``Process(target)``: runs the target in a thread (the writer of yaw's catalog
  creation is a single consumer of a FIFO queue, so its behaviour is a function
  of the order of puts, which the tape controls).  A target that raises ends
  "with exit code 1" like a real process: the exception does not propagate to
  the parent.  ``join()`` while the child waits on an empty queue that nobody
  else can fill is detected *structurally* (no clock) and raised in the parent
  as ``Deadlock``.

The tape is a list of ints; when it runs out, choice 0 is taken, so a run is a
function of the case.
"""

from __future__ import annotations

import collections
import pickle
import threading


class Deadlock(Exception):
    pass


class Tape:
    def __init__(self, values=()):
        self.values = list(values)
        self.pos = 0
        self.choices = []  # (num_options, chosen)

    def choose(self, n: int) -> int:
        if n <= 1:
            return 0
        v = self.values[self.pos] if self.pos < len(self.values) else 0
        self.pos += 1
        c = v % n
        self.choices.append((n, c))
        return c

    @property
    def nontrivial(self) -> bool:
        """at least one decision with >1 option resolved to a non-default choice"""
        return any(c != 0 for n, c in self.choices)


class Stats:
    def __init__(self):
        self.pools = 0
        self.max_tasks = 0
        self.orders = []  # completion orders (lists of task indices)
        self.child_exceptions = []
        self.deadlock = False


def _roundtrip(obj):
    return pickle.loads(pickle.dumps(obj, protocol=pickle.HIGHEST_PROTOCOL))


_QUEUES = {}


def _get_queue(qid):
    return _QUEUES[qid]


class FakeQueue:
    """FIFO queue; instances pickle to a reference (like a manager proxy)"""

    _counter = 0

    def __init__(self, module, maxsize=0):
        FakeQueue._counter += 1
        self._id = FakeQueue._counter
        self._module = module
        self._maxsize = int(maxsize or 0)
        self._items = collections.deque()
        self._cond = threading.Condition()
        self.consumer_waiting = False
        self.closed = False
        _QUEUES[self._id] = self

    def __reduce__(self):
        return (_get_queue, (self._id,))

    def put(self, item):
        item = _roundtrip(item)
        with self._cond:
            # bounded queue: block while full; if no consumer process is alive any more,
            # nobody will ever make room -> structural deadlock of the producer
            while self._maxsize > 0 and len(self._items) >= self._maxsize:
                if not any(p.is_alive() for p in self._module.processes):
                    self._module.stats.deadlock = True
                    raise Deadlock("queue.put() on a full queue that no live process consumes")
                self._cond.wait(0.002)
            self._items.append(item)
            self._cond.notify_all()

    def get(self):
        with self._cond:
            while not self._items:
                self.consumer_waiting = True
                self._cond.notify_all()
                if self.closed:
                    raise Deadlock("queue.get() on an empty queue that no one can fill")
                self._cond.wait()
            self.consumer_waiting = False
            item = self._items.popleft()
            self._cond.notify_all()
            return item

    def qsize(self):
        return len(self._items)


class FakeManager:
    def __init__(self, module):
        self._module = module

    def __enter__(self):
        return self

    def __exit__(self, *a):
        return False

    def Queue(self, maxsize=0):
        q = FakeQueue(self._module, maxsize)
        self._module.queues.append(q)
        return q


class FakeProcess:
    def __init__(self, module, target=None, args=(), kwargs=None):
        self._module = module
        self._target = target
        self._args = args
        self._kwargs = kwargs or {}
        self.exitcode = None
        self._thread = None
        self.exception = None

    def _run(self):
        try:
            self._target(*self._args, **self._kwargs)
            self.exitcode = 0
        except Deadlock:
            self.exitcode = -9
            self._module.stats.deadlock = True
        except BaseException as e:  # noqa - like a child process: reported, not propagated
            self.exception = e
            self.exitcode = 1
            self._module.stats.child_exceptions.append(e)

    def start(self):
        self._thread = threading.Thread(target=self._run, daemon=True)
        self._thread.start()

    def join(self, timeout=None):
        # structural deadlock detection: the parent blocks here; if the child is
        # waiting on an empty queue now, nothing can ever wake it up.
        t = self._thread
        while t.is_alive():
            blocked = None
            for q in self._module.queues:
                with q._cond:
                    if q.consumer_waiting and not q._items:
                        blocked = q
                        break
            if blocked is not None:
                with blocked._cond:
                    if blocked.consumer_waiting and not blocked._items and t.is_alive():
                        blocked.closed = True
                        blocked._cond.notify_all()
                t.join()
                self._module.stats.deadlock = True
                raise Deadlock("parent joined a child that waits for a queue item")
            t.join(0.002)

    def is_alive(self):
        return self._thread is not None and self._thread.is_alive()


class FakePool:
    def __init__(self, module, processes=None):
        self._module = module
        self.processes = int(processes) if processes else 1
        module.stats.pools += 1

    def __enter__(self):
        return self

    def __exit__(self, *a):
        return False

    def close(self):
        pass

    def join(self):
        pass

    def terminate(self):
        pass

    def _completion_order(self, n):
        """simulate w workers with in-order dispatch; tape picks who finishes"""
        w = max(1, self.processes)
        running = list(range(min(w, n)))
        nxt = len(running)
        order = []
        while running:
            k = self._module.tape.choose(len(running))
            order.append(running.pop(k))
            if nxt < n:
                running.append(nxt)
                nxt += 1
        return order

    def imap_unordered(self, func, iterable, chunksize=1):
        func = _roundtrip(func)
        args = [_roundtrip(a) for a in iterable]
        n = len(args)
        self._module.stats.max_tasks = max(self._module.stats.max_tasks, n)
        results = [None] * n
        order = self._completion_order(n)
        self._module.stats.orders.append(order)
        # compute every task once, in dispatch order (workers are independent)
        for i in range(n):
            results[i] = _roundtrip(func(args[i]))
        for i in order:
            yield results[i]

    def imap(self, func, iterable, chunksize=1):
        func = _roundtrip(func)
        for a in iterable:
            yield _roundtrip(func(_roundtrip(a)))

    def map(self, func, iterable, chunksize=None):
        func = _roundtrip(func)
        args = [_roundtrip(a) for a in iterable]
        n = len(args)
        self._module.stats.max_tasks = max(self._module.stats.max_tasks, n)
        order = self._completion_order(n)
        self._module.stats.orders.append(order)
        results = [None] * n
        first_exc = None
        for i in order:  # side effects happen in completion order
            try:
                results[i] = _roundtrip(func(args[i]))
            except Exception as e:  # noqa - Pool.map re-raises in the parent
                if first_exc is None:
                    first_exc = e
        if first_exc is not None:
            raise first_exc
        return results


class FakeMultiprocessing:
    """object that can be bound to the name ``multiprocessing`` inside a yaw module"""

    def __init__(self, tape=()):
        self.tape = tape if isinstance(tape, Tape) else Tape(tape)
        self.stats = Stats()
        self.queues = []
        self.processes = []

    def Pool(self, processes=None, *a, **k):
        return FakePool(self, processes)

    def Manager(self):
        return FakeManager(self)

    def Process(self, target=None, args=(), kwargs=None, **k):
        p = FakeProcess(self, target, args, kwargs)
        self.processes.append(p)
        return p

    def cpu_count(self):
        return 64

    def get_start_method(self, *a, **k):
        return "fork"


class Patched:
    """context manager binding a FakeMultiprocessing into yaw's modules and lifting
    the limit on the number of workers (``get_size`` is min(max_workers, cores))"""

    def __init__(self, tape=(), cores=64):
        self.fake = FakeMultiprocessing(tape)
        self.cores = cores

    def __enter__(self):
        import yaw.catalog.catalog as cc
        import yaw.utils.parallel as par

        self._saved = (cc.multiprocessing, par.multiprocessing, par._num_processes)
        cc.multiprocessing = self.fake
        par.multiprocessing = self.fake
        par._num_processes = lambda: self.cores
        return self.fake

    def __exit__(self, *a):
        import yaw.catalog.catalog as cc
        import yaw.utils.parallel as par

        cc.multiprocessing, par.multiprocessing, par._num_processes = self._saved
        for q in self.fake.queues:
            _QUEUES.pop(q._id, None)
        return False
