"""
Shared runner for all property checks.

A property module (``props/cNN_*.py``) exposes

    PROPERTY     "C17"
    LEVEL        "exploration" | "fault_enumeration"
    RULE         text: how cases are generated and what makes one non-trivial
    ASSUMPTIONS  list[str]
    components() -> list[Component]

A Component couples a Hypothesis strategy that builds a JSON-serialisable
*case* (dict) with a plain function ``run_case(case) -> Result``.  The runner

* replays the committed regression cases in ``replays/<ID>/*.json``,
* runs every component sharded over processes, each shard being one seeded
  Hypothesis run (``seed = VERIF_SEED*100003 + 1009*component + shard``,
  ``database=None``, ``deadline=None``),
* never asserts inside the property: failures are *collected* by signature so
  that a shallow defect does not hide what lies behind it,
* matches failure signatures against ``known_findings.json`` (open entries are
  reported as ``KNOWN-FINDING`` and excluded; everything else is a VIOLATION),
* shrinks (thorough tier) each new signature with Hypothesis itself,
* writes ``evidence/<ID>.json`` and a replay file per violation.

Exit status: 0 held, 1 violation, 2 harness error.
"""

from __future__ import annotations

import hashlib
import importlib
import json
import math
import multiprocessing
import os
import random
import re
import shutil
import sys
import tempfile
import time
import traceback
from dataclasses import dataclass, field
from pathlib import Path
from typing import Any, Callable

VERIF = Path(__file__).resolve().parent.parent
EVIDENCE_DIR = VERIF / "evidence"
REPLAY_DIR = VERIF / "replays"
OUT_DIR = VERIF / "out"
KNOWN_FILE = VERIF / "known_findings.json"


# --------------------------------------------------------------------------
# results
# --------------------------------------------------------------------------
@dataclass
class Result:
    status: str = "ok"  # ok | fail | discard
    sig: str = ""  # root-cause signature for failures
    detail: str = ""  # human readable
    nontrivial: bool = False
    classes: tuple = ()
    n_eval: int = 1  # number of executions this case stands for (fault enumerations run many per case)
    digests: tuple | None = None  # distinct non-trivial items inside the case (default: the case itself)

    @staticmethod
    def ok(nontrivial=False, classes=()):
        return Result("ok", "", "", bool(nontrivial), tuple(classes))

    @staticmethod
    def fail(sig, detail="", nontrivial=True, classes=()):
        return Result("fail", str(sig), str(detail)[:2000], bool(nontrivial), tuple(classes))

    @staticmethod
    def discard(reason, classes=()):
        return Result("discard", str(reason), "", False, tuple(classes))


@dataclass
class Component:
    name: str
    strategy: Any  # hypothesis SearchStrategy producing a JSON-able case
    run_case: Callable[[dict], Result]
    quick: int  # total number of examples in the quick tier
    thorough: int
    shards: int = 16
    quick_shards: int | None = None
    setup: Callable[[], None] | None = None  # run once per shard process
    weight: float = 1.0
    isolate: bool = False  # informational


class HarnessError(Exception):
    pass


# --------------------------------------------------------------------------
# helpers usable from property modules
# --------------------------------------------------------------------------
def repo_src() -> Path:
    return Path(os.environ.get("VERIF_REPO", "/repo")) / "src"


def import_yaw():
    """Import yaw from the tree under test and make sure it really is that
    tree (the editable install points at /repo/src; VERIF_REPO overrides)."""
    src = str(repo_src())
    if sys.path[0] != src:
        sys.path.insert(0, src)
    import yaw  # noqa

    where = Path(yaw.__file__).resolve()
    if not str(where).startswith(str(Path(src).resolve())):
        raise HarnessError(f"yaw imported from {where}, expected under {src}")
    return yaw


def yaw_frame(exc: BaseException) -> str:
    """innermost traceback frame that lies inside the yaw package"""
    tb = traceback.extract_tb(exc.__traceback__)
    src = str(repo_src().resolve())
    best = None
    for fr in tb:
        fn = str(Path(fr.filename).resolve()) if fr.filename and not fr.filename.startswith("<") else fr.filename
        if fn.startswith(src):
            best = f"{os.path.relpath(fn, src)}:{fr.name}"
    return best or "outside-yaw"


def exc_sig(exc: BaseException) -> str:
    return f"exc:{type(exc).__name__}@{yaw_frame(exc)}"


def scratch_base() -> Path:
    base = os.environ.get("VERIF_TMP")
    if base is None:
        base = "/dev/shm" if os.path.isdir("/dev/shm") and os.access("/dev/shm", os.W_OK) else tempfile.gettempdir()
    return Path(base)


class Scratch:
    """temporary directory removed on exit"""

    def __init__(self, prefix="yawv-"):
        self.prefix = prefix

    def __enter__(self) -> Path:
        self.path = Path(tempfile.mkdtemp(prefix=self.prefix, dir=scratch_base()))
        return self.path

    def __exit__(self, *a):
        shutil.rmtree(self.path, ignore_errors=True)


def case_digest(case) -> str:
    return hashlib.sha1(json.dumps(case, sort_keys=True, default=str).encode()).hexdigest()[:16]


def abbreviate(obj, maxlen=12):
    """shorten long lists in a case for the evidence samples"""
    if isinstance(obj, dict):
        return {k: abbreviate(v, maxlen) for k, v in obj.items()}
    if isinstance(obj, (list, tuple)):
        if len(obj) > maxlen:
            head = [abbreviate(v, maxlen) for v in obj[: maxlen - 2]]
            return head + [f"... {len(obj) - maxlen + 2} more"]
        return [abbreviate(v, maxlen) for v in obj]
    if isinstance(obj, float) and not math.isfinite(obj):
        return repr(obj)
    return obj


# --------------------------------------------------------------------------
# known findings
# --------------------------------------------------------------------------
def load_known(pid: str):
    if not KNOWN_FILE.exists():
        return []
    data = json.loads(KNOWN_FILE.read_text())
    return [e for e in data.get("findings", []) if e["property"] == pid and e.get("status") == "open"]


def match_known(entries, component: str, sig: str):
    for e in entries:
        if e.get("component") not in (None, component):
            continue
        if re.fullmatch(e["signature"], sig):
            return e
    return None


# --------------------------------------------------------------------------
# shard execution
# --------------------------------------------------------------------------
def _hyp_settings(n, shrink=False):
    from hypothesis import HealthCheck, Phase, settings

    phases = [Phase.generate, Phase.target] + ([Phase.shrink] if shrink else [])
    return settings(
        max_examples=max(1, n),
        database=None,
        deadline=None,
        derandomize=False,
        report_multiple_bugs=False,
        phases=phases,
        suppress_health_check=[HealthCheck.too_slow, HealthCheck.data_too_large, HealthCheck.large_base_example],
        print_blob=False,
    )


def _run_shard(modname, comp_idx, shard_idx, n, seed, deadline, outfile, target_sig=None):
    """Executed in a forked child.  Writes a JSON summary to outfile."""
    summary = {
        "evaluations": 0,
        "discarded": 0,
        "nontrivial_digests": [],
        "classes": {},
        "samples": [],
        "failures": {},
        "budget_exhausted": False,
        "error": None,
        "shrunk": None,
    }
    try:
        import hypothesis
        from hypothesis import given

        import warnings

        import numpy as _np

        warnings.filterwarnings("ignore", category=RuntimeWarning)
        _np.seterr(all="ignore")
        mod = importlib.import_module(modname)
        comp = mod.components()[comp_idx]
        if comp.setup:
            comp.setup()
        digests = set()
        state = {"last_fail": None}

        # Hypothesis always starts a run with the all-simplest example; with many small
        # shards that would be most of what is generated.  Only shard 0 evaluates it.
        skip_first = {"todo": shard_idx != 0}

        def body(case):
            if skip_first["todo"]:
                skip_first["todo"] = False
                return
            if time.monotonic() > deadline:
                summary["budget_exhausted"] = True
                return
            res_all = comp.run_case(case)
            if isinstance(res_all, Result):
                res_all = [res_all]
            if not res_all or not all(isinstance(r, Result) for r in res_all):
                raise HarnessError(f"run_case returned {type(res_all)}")
            res = res_all[0]
            if res.status == "discard":
                summary["discarded"] += 1
                summary["classes"]["discard:" + res.sig] = summary["classes"].get("discard:" + res.sig, 0) + 1
                return
            summary["evaluations"] += max(1, int(res.n_eval))
            for c in res.classes:
                summary["classes"][c] = summary["classes"].get(c, 0) + 1
            if res.nontrivial:
                d = case_digest(case)
                items = [d] if res.digests is None else [f"{d}:{x}" for x in res.digests]
                fresh = [x for x in items if x not in digests]
                digests.update(items)
                if fresh and len(summary["samples"]) < 2:
                    summary["samples"].append(abbreviate(case))
            for res in res_all:
                if res.status != "fail":
                    continue
                f = summary["failures"].get(res.sig)
                size = len(json.dumps(case, default=str))
                if f is None:
                    summary["failures"][res.sig] = {"case": case, "detail": res.detail, "count": 1, "size": size}
                else:
                    f["count"] += 1
                    if size < f["size"]:
                        f.update(case=case, detail=res.detail, size=size)
                if target_sig is not None and res.sig == target_sig:
                    state["last_fail"] = case
                    raise AssertionError(res.sig)

        test = given(comp.strategy)(body)
        test = hypothesis.seed(seed)(test)
        test = _hyp_settings(n + (1 if shard_idx != 0 else 0), shrink=target_sig is not None)(test)
        try:
            test()
        except AssertionError:
            if target_sig is None:
                raise
            summary["shrunk"] = state["last_fail"]
        summary["nontrivial_digests"] = sorted(digests)
    except BaseException as e:  # noqa
        summary["error"] = "".join(traceback.format_exception(type(e), e, e.__traceback__))[-4000:]
    with open(outfile, "w") as f:
        json.dump(summary, f, default=str)


def _run_replay(modname, path, outfile):
    out = {"error": None, "fails": [], "component": None}
    try:
        import warnings

        import numpy as _np

        warnings.filterwarnings("ignore", category=RuntimeWarning)
        _np.seterr(all="ignore")
        mod = importlib.import_module(modname)
        data, results = replay_file(mod, Path(path))
        out["component"] = data["component"]
        out["fails"] = [(r.sig, r.detail) for r in results if r.status == "fail"]
    except BaseException as e:  # noqa
        out["error"] = "".join(traceback.format_exception(type(e), e, e.__traceback__))[-4000:]
    with open(outfile, "w") as f:
        json.dump(out, f)


def _spawn(target, args):
    ctx = multiprocessing.get_context("fork")
    p = ctx.Process(target=target, args=args)
    p.daemon = False
    p.start()
    return p


def plan_component(comp_idx, comp: Component, tier, seed, workdir: Path, max_procs=16):
    """list of shard jobs (comp_idx, shard, n, seed, outfile) of one component"""
    n_total = comp.quick if tier == "quick" else comp.thorough
    shards = comp.shards
    if tier == "quick" and comp.quick_shards:
        shards = comp.quick_shards
    shards = max(1, min(shards, n_total, max_procs))
    per = [n_total // shards + (1 if i < n_total % shards else 0) for i in range(shards)]
    return [(comp_idx, s, per[s], seed * 100003 + 1009 * comp_idx + s, workdir / f"c{comp_idx}_s{s}.json") for s in range(shards)]


def run_jobs(modname, jobs, comps, deadline, max_procs=16):
    """run shard jobs of all components with at most max_procs processes at a time;
    returns {comp_idx: [shard summaries]}"""
    pending = list(jobs)
    running = []
    while pending or running:
        while pending and len(running) < max_procs:
            job = pending.pop(0)
            ci, s, n, sseed, out = job
            running.append((job, _spawn(_run_shard, (modname, ci, s, n, sseed, deadline, str(out), None))))
        still = []
        for job, p in running:
            if p.is_alive():
                still.append((job, p))
            else:
                p.join()
        if len(still) == len(running):
            time.sleep(0.02)
        running = still
    results = {}
    for ci, s, n, sseed, out in jobs:
        name = comps[ci].name
        if not out.exists():
            raise HarnessError(f"shard {name}/{s} died without output")
        r = json.loads(out.read_text())
        if r["error"]:
            raise HarnessError(f"shard {name}/{s} failed:\n{r['error']}")
        r["shard"], r["seed"], r["n"] = s, sseed, n
        results.setdefault(ci, []).append(r)
    return results


def shrink_failure(modname, comp_idx, shard, target_sig, deadline, workdir):
    out = workdir / f"shrink_c{comp_idx}_s{shard['shard']}.json"
    p = _spawn(_run_shard, (modname, comp_idx, shard["shard"], shard["n"], shard["seed"], deadline, str(out), target_sig))
    p.join()
    if out.exists():
        r = json.loads(out.read_text())
        return r.get("shrunk")
    return None


# --------------------------------------------------------------------------
# main entry
# --------------------------------------------------------------------------
def tree_id():
    import subprocess

    repo = os.environ.get("VERIF_REPO", "/repo")
    try:
        head = subprocess.run(["git", "-C", repo, "rev-parse", "HEAD"], capture_output=True, text=True).stdout.strip()
        dirty = bool(subprocess.run(["git", "-C", repo, "status", "--porcelain", "-uno"], capture_output=True, text=True).stdout.strip())
        return {"head": head, "dirty": dirty}
    except Exception:
        return {"head": "unknown", "dirty": None}


def write_replay(pid, comp_name, sig, case, detail, tag="violation"):
    d = OUT_DIR / "violations" / pid
    d.mkdir(parents=True, exist_ok=True)
    h = hashlib.sha1((comp_name + sig).encode()).hexdigest()[:10]
    path = d / f"{tag}_{comp_name}_{h}.json"
    path.write_text(json.dumps({"property": pid, "component": comp_name, "expected": "ok", "signature": sig, "detail": detail, "case": case}, indent=1, default=str))
    return path


def replay_file(mod, path: Path):
    data = json.loads(Path(path).read_text())
    comps = {c.name: c for c in mod.components()}
    comp = comps[data["component"]]
    if comp.setup:
        comp.setup()
    res = comp.run_case(data["case"])
    return data, ([res] if isinstance(res, Result) else list(res))


def main(argv=None):
    import argparse

    ap = argparse.ArgumentParser()
    ap.add_argument("property")
    ap.add_argument("--tier", default=os.environ.get("VERIF_TIER", "quick"), choices=["quick", "thorough"])
    ap.add_argument("--replay", default=None)
    ap.add_argument("--only", default=None, help="run only this component")
    ap.add_argument("--scale", type=float, default=1.0, help="scale the number of examples")
    ap.add_argument("--budget", type=float, default=None, help="wall-clock cap in seconds")
    ap.add_argument("--no-evidence", action="store_true")
    args = ap.parse_args(argv)

    pid = args.property.upper()
    seed = int(os.environ.get("VERIF_SEED", "1"))
    t0 = time.monotonic()
    try:
        import_yaw()
        mods = sorted(p.stem for p in (VERIF / "props").glob(f"{pid.lower()}_*.py"))
        if len(mods) != 1:
            raise HarnessError(f"no unique module for {pid}: {mods}")
        modname = f"props.{mods[0]}"
        mod = importlib.import_module(modname)
        comps = mod.components()
    except Exception as e:
        print(f"HARNESS-ERROR: {e}\n{traceback.format_exc()}", file=sys.stderr)
        return 2

    if args.replay:
        try:
            data, res = replay_file(mod, Path(args.replay))
        except Exception:
            print(f"HARNESS-ERROR: replay failed\n{traceback.format_exc()}", file=sys.stderr)
            return 2
        rc = 0
        for r in res:
            print(f"replay {args.replay}: status={r.status} sig={r.sig}\n{r.detail}")
            if r.status == "fail":
                known = match_known(load_known(pid), data["component"], r.sig)
                if known:
                    print(f"KNOWN-FINDING: property={pid} {known['id']}: {known['what']}")
                else:
                    print(f"VIOLATION property={pid} replay={args.replay}")
                    rc = 1
        return rc

    known_entries = load_known(pid)
    default_budget = 600 if args.tier == "quick" else 6 * 3600
    budget = args.budget or float(os.environ.get("VERIF_BUDGET", default_budget))
    deadline = time.monotonic() + budget

    violations = []  # (component, sig, path)
    known_hits = {}
    total_eval = 0
    total_disc = 0
    nontrivial = set()
    classes = {}
    samples = []
    budget_exhausted = False
    per_component = {}
    replayed = 0

    workdir = Path(tempfile.mkdtemp(prefix=f"yawv-run-{pid}-", dir=scratch_base()))
    try:
        # ---- regression replays (committed, expected to pass)
        rdir = REPLAY_DIR / pid
        if rdir.is_dir():
            paths = sorted(rdir.glob("*.json"))
            # replays run concurrently in forked children (some, e.g. crash enumerations, take seconds)
            running, pending, outs = [], list(enumerate(paths)), {}
            while pending or running:
                while pending and len(running) < 16:
                    i, path = pending.pop(0)
                    out = workdir / f"replay_{i}.json"
                    outs[i] = (path, out)
                    running.append(_spawn(_run_replay, (modname, str(path), str(out))))
                running = [p for p in running if p.is_alive() or p.join()]
                time.sleep(0.02)
            for i, (path, out) in sorted(outs.items()):
                if not out.exists():
                    raise HarnessError(f"replay {path} died without output")
                r = json.loads(out.read_text())
                if r.get("error"):
                    raise HarnessError(f"replay {path} failed:\n{r['error']}")
                replayed += 1
                for sig, detail in r["fails"]:
                    k = match_known(known_entries, r["component"], sig)
                    if k:
                        known_hits.setdefault(k["id"], [k, 0])[1] += 1
                    else:
                        violations.append((r["component"], sig, path, detail))

        # ---- generated search
        jobs = []
        for ci, comp in enumerate(comps):
            if args.only and comp.name != args.only:
                continue
            if args.scale != 1.0:
                comp.quick = max(1, int(comp.quick * args.scale))
                comp.thorough = max(1, int(comp.thorough * args.scale))
            jobs += plan_component(ci, comp, args.tier, seed, workdir)
        all_results = run_jobs(modname, jobs, comps, deadline)
        for ci, comp in enumerate(comps):
            if ci not in all_results:
                continue
            shards = all_results[ci]
            ev = sum(s["evaluations"] for s in shards)
            total_eval += ev
            total_disc += sum(s["discarded"] for s in shards)
            nt = set()
            for s in shards:
                nt.update(s["nontrivial_digests"])
                for k, v in s["classes"].items():
                    classes[f"{comp.name}:{k}"] = classes.get(f"{comp.name}:{k}", 0) + v
                budget_exhausted |= s["budget_exhausted"]
            for s in shards[:3]:
                for smp in s["samples"][:1]:
                    if len(samples) < 8:
                        samples.append({"component": comp.name, "case": smp})
            nontrivial.update(f"{comp.name}:{d}" for d in nt)
            per_component[comp.name] = {"evaluations": ev, "distinct_nontrivial": len(nt)}

            # failures by signature
            fails = {}
            for s in shards:
                for sig, f in s["failures"].items():
                    cur = fails.get(sig)
                    if cur is None or f["size"] < cur[1]["size"]:
                        fails[sig] = (s, f)
            for sig, (shard, f) in sorted(fails.items()):
                k = match_known(known_entries, comp.name, sig)
                if k:
                    n = sum(s["failures"].get(sig, {}).get("count", 0) for s in shards)
                    known_hits.setdefault(k["id"], [k, 0])[1] += n
                    continue
                case = f["case"]
                if args.tier == "thorough" and time.monotonic() < deadline:
                    shr = shrink_failure(modname, ci, shard, sig, time.monotonic() + 300, workdir)
                    if shr is not None:
                        case = shr
                path = write_replay(pid, comp.name, sig, case, f["detail"])
                violations.append((comp.name, sig, path, f["detail"]))
    except HarnessError as e:
        print(f"HARNESS-ERROR: {e}", file=sys.stderr)
        return 2
    except Exception:
        print(f"HARNESS-ERROR: {traceback.format_exc()}", file=sys.stderr)
        return 2
    finally:
        shutil.rmtree(workdir, ignore_errors=True)

    wall = time.monotonic() - t0
    for kid, (k, n) in sorted(known_hits.items()):
        print(f"KNOWN-FINDING: property={pid} {kid}: {k['what']} (hit {n}x)")
    for comp_name, sig, path, detail in violations:
        print(f"[{comp_name}] {sig}\n    {detail[:600]}")
        print(f"VIOLATION property={pid} replay={path}")

    if not args.no_evidence and not args.only:
        EVIDENCE_DIR.mkdir(exist_ok=True)
        evidence = {
            "property_id": pid,
            "tier": args.tier,
            "seed": seed,
            "level": mod.LEVEL,
            "coverage": {
                "evaluations": total_eval,
                "distinct_nontrivial": len(nontrivial),
                "rule": mod.RULE,
                "samples": samples,
                "classes": dict(sorted(classes.items())),
                "per_component": per_component,
                "discarded": total_disc,
                "replayed_regressions": replayed,
                "excluded_known": {kid: n for kid, (k, n) in known_hits.items()},
                "budget_exhausted": budget_exhausted,
                "tree": tree_id(),
            },
            "assumptions": list(getattr(mod, "ASSUMPTIONS", [])),
            "wall_s": round(wall, 2),
            "violations": len(violations),
        }
        (EVIDENCE_DIR / f"{pid}.json").write_text(json.dumps(evidence, indent=1, default=str))
    print(
        f"{pid} tier={args.tier} seed={seed}: {total_eval} cases, {len(nontrivial)} distinct non-trivial, "
        f"{total_disc} discarded, {replayed} replays, {len(violations)} violations, {len(known_hits)} known findings, {wall:.1f}s"
        + (" [budget exhausted]" if budget_exhausted else "")
    )
    return 1 if violations else 0


# --------------------------------------------------------------------------
# small assertion collector used by run_case implementations
# --------------------------------------------------------------------------
class Checker:
    """Collects failures instead of raising so that one case can report several
    root causes.  ``results()`` returns the list for the runner."""

    def __init__(self, nontrivial=False, classes=()):
        self.nontrivial = bool(nontrivial)
        self.classes = list(classes)
        self.n_eval = 1
        self.digests = None
        self.fails: list[Result] = []
        self._seen = set()

    def cls(self, *labels):
        self.classes.extend(labels)

    def fail(self, sig, detail=""):
        if sig not in self._seen:
            self._seen.add(sig)
            self.fails.append(Result.fail(sig, detail))

    def expect(self, cond, sig, detail=""):
        if not cond:
            self.fail(sig, detail() if callable(detail) else detail)
        return bool(cond)

    def call(self, fn, sig, *args, **kwargs):
        """call into the code under test; an exception is a failure with a
        signature naming the innermost yaw frame. Returns (ok, value)."""
        try:
            return True, fn(*args, **kwargs)
        except Exception as e:  # noqa
            self.fail(f"{sig}|{exc_sig(e)}", f"{type(e).__name__}: {e}")
            return False, None

    def raises(self, fn, sig, *args, **kwargs):
        """the contract is 'rejects with an error': any Exception is fine"""
        try:
            fn(*args, **kwargs)
        except Exception:
            return True
        self.fail(sig, "no exception raised")
        return False

    def results(self):
        dg = None if self.digests is None else tuple(self.digests)
        head = Result("ok", "", "", self.nontrivial, tuple(self.classes), self.n_eval, dg)
        if self.fails:
            first = self.fails[0]
            first.nontrivial = self.nontrivial
            first.classes = tuple(self.classes)
            first.n_eval, first.digests = self.n_eval, dg
            return list(self.fails)
        return [head]
