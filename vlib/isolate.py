"""
Run a function in a forked child with hang detection that does not use the
wall clock as a correctness signal:

* the child is given ``bound`` seconds before anyone looks at it,
* after that it is declared *hung* only if two samples ``gap`` seconds apart
  show zero CPU progress in the whole process tree (utime+stime from
  /proc/<pid>/stat) -- a slow but working process keeps accumulating CPU time,
* a process that keeps making progress is waited for up to ``hard_cap``
  seconds and then reported as ``inconclusive`` (never as a violation).
"""

from __future__ import annotations

import multiprocessing
import os
import pickle
import signal
import time
import traceback


def _children(pid):
    out = []
    try:
        for task in os.listdir(f"/proc/{pid}/task"):
            with open(f"/proc/{pid}/task/{task}/children") as f:
                for c in f.read().split():
                    out.append(int(c))
    except OSError:
        pass
    return out


def tree(pid):
    seen, stack = [], [pid]
    while stack:
        p = stack.pop()
        if p in seen:
            continue
        seen.append(p)
        stack.extend(_children(p))
    return seen


def cpu_ticks(pid):
    total = 0
    for p in tree(pid):
        try:
            with open(f"/proc/{p}/stat") as f:
                fields = f.read().rsplit(")", 1)[1].split()
            total += int(fields[11]) + int(fields[12])
        except (OSError, IndexError, ValueError):
            pass
    return total


def kill_tree(pid):
    for p in reversed(tree(pid)):
        try:
            os.kill(p, signal.SIGKILL)
        except OSError:
            pass


def _child(fn, args, conn):
    try:
        os.setpgrp()
    except OSError:
        pass
    try:
        res = ("ok", fn(*args))
    except BaseException as e:  # noqa
        res = ("exc", (type(e).__name__, str(e), traceback.format_exc()[-3000:], _exc_frame(e)))
    try:
        conn.send_bytes(pickle.dumps(res))
    except Exception as e:  # noqa
        conn.send_bytes(pickle.dumps(("exc", ("PickleError", str(e), "", "outside-yaw"))))
    conn.close()


def _exc_frame(e):
    try:
        from vlib.runner import yaw_frame

        return yaw_frame(e)
    except Exception:  # noqa
        return "unknown"


def run_isolated(fn, args=(), bound=30.0, gap=3.0, hard_cap=600.0):
    """returns (status, payload): status in ok / exc / hung / inconclusive / died"""
    ctx = multiprocessing.get_context("fork")
    parent, child = ctx.Pipe(duplex=False)
    p = ctx.Process(target=_child, args=(fn, args, child))
    p.daemon = False
    p.start()
    child.close()
    t0 = time.monotonic()
    try:
        while True:
            if parent.poll(0.05):
                try:
                    res = pickle.loads(parent.recv_bytes())
                except EOFError:
                    p.join(5)
                    return "died", p.exitcode
                p.join(10)
                kill_tree(p.pid)
                return res
            if not p.is_alive():
                if parent.poll(0.2):
                    continue
                return "died", p.exitcode
            el = time.monotonic() - t0
            if el > bound:
                c0 = cpu_ticks(p.pid)
                t1 = time.monotonic()
                while time.monotonic() - t1 < gap:
                    if parent.poll(0.1):
                        break
                else:
                    c1 = cpu_ticks(p.pid)
                    if c1 == c0:
                        # second confirmation sample
                        time.sleep(gap)
                        if not parent.poll(0) and cpu_ticks(p.pid) == c1:
                            kill_tree(p.pid)
                            p.join(5)
                            return "hung", f"no CPU progress in process tree for {2 * gap:.0f}s after {el:.0f}s"
                if time.monotonic() - t0 > hard_cap:
                    kill_tree(p.pid)
                    p.join(5)
                    return "inconclusive", f"still making progress after {hard_cap}s"
    finally:
        if p.is_alive():
            kill_tree(p.pid)
            p.join(5)
        parent.close()
