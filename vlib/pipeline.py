"""
Helpers to run the public yaw pipeline on generated cases and an independent
brute-force O(N^2) reference for pair counts (no trees, no patch pruning).
"""

from __future__ import annotations

import math
from pathlib import Path

import numpy as np

# --------------------------------------------------------------------------
# cosmology handling
# --------------------------------------------------------------------------
_CUSTOM = {}


def _flat_custom_class():
    """module-level (picklable) CustomCosmology subclass returning plain floats"""
    global FlatCustom
    if "FlatCustom" not in globals():
        import astropy.cosmology as ac

        from yaw.cosmology import CustomCosmology

        class FlatCustom(CustomCosmology):
            def __init__(self):
                self._c = ac.FlatLambdaCDM(H0=100.0, Om0=0.25)  # far from the default Planck15 on purpose

            def comoving_distance(self, z):
                return np.asarray(self._c.comoving_distance(z).value)

            def angular_diameter_distance(self, z):
                return np.asarray(self._c.angular_diameter_distance(z).value)

        FlatCustom.__qualname__ = "FlatCustom"
        FlatCustom.__module__ = __name__
        globals()["FlatCustom"] = FlatCustom
    return globals()["FlatCustom"]


def __getattr__(name):
    if name == "FlatCustom":
        return _flat_custom_class()
    raise AttributeError(name)


def get_cosmology(name: str):
    """'Planck15', 'WMAP9', ... or 'custom' (a CustomCosmology subclass that
    returns plain floats, exercising the non-Quantity code path)"""
    import astropy.cosmology as ac

    if name == "custom":
        if "custom" not in _CUSTOM:
            _CUSTOM["custom"] = _flat_custom_class()()
        return _CUSTOM["custom"]
    if name == "curved":  # spatially curved FLRW model: D_A != D_C / (1 + z)
        if "curved" not in _CUSTOM:
            _CUSTOM["curved"] = ac.LambdaCDM(H0=70.0, Om0=0.3, Ode0=0.9)  # unnamed, like the custom one: nothing may be keyed on the name
        return _CUSTOM["curved"]
    return getattr(ac, name)


def distance_mpc(cosmo_name: str, unit: str, z):
    """reference distance for a unit's measure straight from astropy (Mpc)"""
    import astropy.cosmology as ac

    if cosmo_name == "custom":
        c = ac.FlatLambdaCDM(H0=100.0, Om0=0.25)
    elif cosmo_name == "curved":
        c = ac.LambdaCDM(H0=70.0, Om0=0.3, Ode0=0.9)
    else:
        c = getattr(ac, cosmo_name)
    if unit in ("kpc", "Mpc"):
        return np.asarray(c.angular_diameter_distance(z).value, dtype=float)
    if unit in ("kpc/h", "Mpc/h"):
        return np.asarray(c.comoving_distance(z).value, dtype=float)
    raise ValueError(unit)


ANG_FACTOR = {"rad": 1.0, "deg": math.pi / 180.0, "arcmin": math.pi / 180.0 / 60.0, "arcsec": math.pi / 180.0 / 3600.0}


def scale_to_angle(cosmo_name: str, unit: str, r, z):
    """angle in rad of a scale r (in unit) at redshift z, independent of yaw"""
    r = np.asarray(r, dtype=float)
    if unit in ANG_FACTOR:
        return r * ANG_FACTOR[unit]
    d = distance_mpc(cosmo_name, unit, z)
    if unit.startswith("kpc"):
        r = r / 1000.0
    return r / d


def make_config(cfg: dict):
    from yaw import Configuration

    kw = dict(rmin=cfg["rmin"], rmax=cfg["rmax"], unit=cfg["unit"], rweight=cfg.get("rweight"), resolution=cfg.get("resolution"), closed=cfg["closed"], cosmology=get_cosmology(cfg.get("cosmology", "Planck15")))
    if len(kw["rmin"]) == 1 and cfg.get("scalar_scales"):
        kw["rmin"], kw["rmax"] = kw["rmin"][0], kw["rmax"][0]
    if cfg.get("edges") is not None:
        kw["edges"] = cfg["edges"]
    else:
        kw.update(zmin=cfg["zmin"], zmax=cfg["zmax"], num_bins=cfg["num_bins"], method=cfg["method"])
    if cfg.get("max_workers") is not None:
        kw["max_workers"] = cfg["max_workers"]
    return Configuration.create(**kw)


# --------------------------------------------------------------------------
# catalogs
# --------------------------------------------------------------------------
def to_xyz(ra, dec):
    ra = np.asarray(ra, dtype=float)
    dec = np.asarray(dec, dtype=float)
    cd = np.cos(dec)
    return np.column_stack([np.cos(ra) * cd, np.sin(ra) * cd, np.sin(dec)])


def nearest_centre(xyz, cxyz):
    """(index of nearest centre, margin between best and second best squared
    chord) by explicit distance computation"""
    d2 = ((xyz[:, None, :] - cxyz[None, :, :]) ** 2).sum(axis=2)
    idx = np.argmin(d2, axis=1)
    if cxyz.shape[0] > 1:
        part = np.partition(d2, 1, axis=1)
        margin = part[:, 1] - part[:, 0]
    else:
        margin = np.full(len(xyz), np.inf)
    return idx, margin


def make_catalog(path: Path, cat: dict, centers=None, *, patch_ids=None, max_workers=1, degrees=False, **kw):
    """create a yaw Catalog from a case fragment {ra, dec, w, z} (radian)"""
    import pandas as pd

    from yaw import AngularCoordinates, Catalog

    data = {"ra": np.asarray(cat["ra"], dtype=float), "dec": np.asarray(cat["dec"], dtype=float)}
    if degrees:
        data["ra"] = np.rad2deg(data["ra"])
        data["dec"] = np.rad2deg(data["dec"])
    names = dict(ra_name="ra", dec_name="dec")
    if cat.get("w") is not None:
        data["w"] = np.asarray(cat["w"], dtype=float)
        names["weight_name"] = "w"
    if cat.get("z") is not None:
        data["z"] = np.asarray(cat["z"], dtype=float)
        names["redshift_name"] = "z"
    if patch_ids is not None:
        data["pid"] = np.asarray(patch_ids, dtype=np.int64)
        names["patch_name"] = "pid"
    else:
        names["patch_centers"] = centers if isinstance(centers, Catalog) else AngularCoordinates(np.asarray(centers, dtype=float))
        if cat.get("stale_pid") is not None:
            # a redundant / stale patch-index column next to explicit centres: documented to be ignored
            data["pid"] = np.asarray(cat["stale_pid"], dtype=np.int64)
            names["patch_name"] = "pid"
    df = pd.DataFrame(data)
    return Catalog.from_dataframe(path, df, degrees=degrees, max_workers=max_workers, **names, **kw)


def catalog_records(catalog):
    """dict patch_id -> structured array of stored records"""
    return {pid: patch.load_data() for pid, patch in catalog.items()}


# --------------------------------------------------------------------------
# brute-force reference
# --------------------------------------------------------------------------
def separation_matrix(xyz1, xyz2):
    """angular separations via atan2(|a x b|, a.b) -- independent of the chord
    formula used by the library"""
    a = xyz1[:, None, :]
    b = xyz2[None, :, :]
    cross = np.cross(a, b)
    return np.arctan2(np.sqrt((cross**2).sum(axis=2)), (a * b).sum(axis=2))


def bin_membership(z, edges, closed):
    """index of the bin each redshift belongs to, -1 outside; explicit interval tests"""
    z = np.asarray(z, dtype=float)
    idx = np.full(len(z), -1, dtype=int)
    for b in range(len(edges) - 1):
        lo, hi = edges[b], edges[b + 1]
        m = (z > lo) & (z <= hi) if closed == "right" else (z >= lo) & (z < hi)
        idx[m] = b
    return idx


def fine_grid(ang_min, ang_max, resolution):
    """independent construction of the fine logarithmic grid used for
    separation weighting: `resolution` log-spaced bins between the global
    min/max angle, merged with every scale limit"""
    lo, hi = np.log10(np.min(ang_min)), np.log10(np.max(ang_max))
    grid = [lo + (hi - lo) * k / resolution for k in range(resolution + 1)]
    grid = np.array(sorted(set(grid) | set(np.log10(ang_min).tolist()) | set(np.log10(ang_max).tolist())))
    return 10.0**grid


class Sample:
    """a catalog as the oracle sees it"""

    def __init__(self, cat: dict, cxyz):
        self.xyz = to_xyz(cat["ra"], cat["dec"])
        self.n = len(self.xyz)
        self.w = np.ones(self.n) if cat.get("w") is None else np.asarray(cat["w"], dtype=float)
        self.z = None if cat.get("z") is None else np.asarray(cat["z"], dtype=float)
        if cat.get("pid") is not None:
            self.patch = np.asarray(cat["pid"], dtype=int)
            self.margin = np.full(self.n, np.inf)
        else:
            self.patch, self.margin = nearest_centre(self.xyz, cxyz)


def normalisation_ok(cf):
    """(per bin, per sample and bin) True where the product of summed weights of every pair-count
    member of a CorrFunc is non-degenerate.  Where a (leave-one-out) normalisation is zero in exact
    arithmetic the library's subtract-from-total shortcut leaves a residue of ~1e-15, and the
    normalised counts there are residue/residue: arbitrary numbers of order one."""
    ok_d = ok_s = None
    for kind in ("dd", "dr", "rd", "rr"):
        member = getattr(cf, kind)
        if member is None:
            continue
        with np.errstate(all="ignore"):
            w = member.sum_weights.sample_patch_sum()
        top = max(float(np.nanmax(np.abs(w.data), initial=0.0)), float(np.nanmax(np.abs(w.samples), initial=0.0)), 1e-300)
        d, smp = np.abs(w.data) > 1e-9 * top, np.abs(w.samples) > 1e-9 * top
        ok_d = d if ok_d is None else ok_d & d
        ok_s = smp if ok_s is None else ok_s & smp
    return ok_d, ok_s


class SceneUnusable(Exception):
    """the generated scene cannot be turned into catalogs (harness-side precondition)"""


def scene_samples(scene):
    """the catalogs of a scene as the oracle sees them.  Normally every catalog is assigned to
    the given centres; with ``scene["derived"]`` the first catalog is created from a patch-index
    column (nearest given centre) and the others take their centres from that catalog, i.e. the
    directions of the weighted mean vectors of its patches (documented in Metadata.compute).
    Returns None when that leaves a patch of another catalog empty or a centre undefined."""
    cen = np.asarray(scene["centers"], dtype=float)
    cxyz = to_xyz(cen[:, 0], cen[:, 1])
    cats = scene["cats"]
    if not scene.get("derived"):
        return [Sample(c, cxyz) for c in cats]
    s0 = Sample(cats[0], cxyz)
    derived = np.zeros_like(cxyz)
    for k in range(len(cxyz)):
        m = s0.patch == k
        v = (s0.xyz[m] * s0.w[m][:, None]).sum(axis=0)
        norm = float(np.linalg.norm(v))
        if not m.any() or not norm > 1e-6 * float(np.abs(s0.w[m]).sum()):
            return None
        derived[k] = v / norm
    out = [s0]
    for c in cats[1:]:
        s = Sample(c, derived)
        if len(set(s.patch.tolist())) < len(cxyz):
            return None
        out.append(s)
    return out


def expected_counts(s1: Sample, s2: Sample, *, auto: bool, binned2: bool, edges, closed, ang_min, ang_max, npatch, rweight=None, resolution=None, amb_abs=1e-12, amb_rel=1e-9):
    """
    Brute-force expected pair-count arrays.

    ang_min/ang_max: arrays (num_scales, num_bins) of angles at the bin centres.
    Returns (counts[num_scales, num_bins, P, P], ambiguous[num_scales, num_bins, P, P] bool,
             sumw1[num_bins, P], sumw2[num_bins, P], near_pairs info)
    For rweight the returned counts are *unnormalised* (sum of w1*w2*mid_k^alpha).
    """
    nb = len(edges) - 1
    ns = ang_min.shape[0]
    counts = np.zeros((ns, nb, npatch, npatch))
    amb = np.zeros((ns, nb, npatch, npatch), dtype=bool)
    b1 = bin_membership(s1.z, edges, closed)
    b2 = bin_membership(s2.z, edges, closed) if binned2 else None
    sumw1 = np.zeros((nb, npatch))
    sumw2 = np.zeros((nb, npatch))
    for b in range(nb):
        m1 = b1 == b
        np.add.at(sumw1[b], s1.patch[m1], s1.w[m1])
        m2 = (b2 == b) if binned2 else np.ones(s2.n, dtype=bool)
        np.add.at(sumw2[b], s2.patch[m2], s2.w[m2])
    if s1.n == 0 or s2.n == 0:
        return counts, amb, sumw1, sumw2
    sep = separation_matrix(s1.xyz, s2.xyz)
    ww = s1.w[:, None] * s2.w[None, :]
    for b in range(nb):
        m1 = np.nonzero(b1 == b)[0]
        m2 = np.nonzero(b2 == b)[0] if binned2 else np.arange(s2.n)
        if len(m1) == 0 or len(m2) == 0:
            continue
        sub = sep[np.ix_(m1, m2)]
        wsub = ww[np.ix_(m1, m2)]
        p1 = s1.patch[m1][:, None] * np.ones(len(m2), dtype=int)[None, :]
        p2 = np.ones(len(m1), dtype=int)[:, None] * s2.patch[m2][None, :]
        if auto:
            # ordered pairs of the same sample: i == j within patch counted in both orders
            same = m1[:, None] == m2[None, :]
        if rweight is not None:
            grid = fine_grid(ang_min[:, b], ang_max[:, b], resolution)
            mids = 10.0 ** ((np.log10(grid[:-1]) + np.log10(grid[1:])) / 2.0)
            fw = mids**rweight
            edges_all = grid
        else:
            edges_all = np.unique(np.concatenate([ang_min[:, b], ang_max[:, b]]))
        # ambiguity: any pair within the band of any used edge
        tol = amb_abs + amb_rel * edges_all
        near = np.zeros(sub.shape, dtype=bool)
        for e, t in zip(edges_all, tol):
            near |= np.abs(sub - e) <= t
        for s in range(ns):
            lo, hi = ang_min[s, b], ang_max[s, b]
            inside = (sub > lo) & (sub <= hi)
            if auto:
                inside = inside & ~same
            if rweight is None:
                contrib = np.where(inside, wsub, 0.0)
            else:
                k = np.searchsorted(grid, sub, side="left") - 1  # bin k: grid[k] < sep <= grid[k+1]
                k = np.clip(k, 0, len(fw) - 1)
                contrib = np.where(inside, wsub * fw[k], 0.0)
            c = np.zeros((npatch, npatch))
            np.add.at(c, (p1.ravel(), p2.ravel()), contrib.ravel())
            # pairs near an edge *of this scale or of the fine grid inside it*
            rel = near & (sub >= lo - tol.max()) & (sub <= hi + tol.max())
            a = np.zeros((npatch, npatch), dtype=bool)
            if rel.any():
                a[p1[rel], p2[rel]] = True
            if auto:
                cu = np.triu(c, 1)
                cu[np.diag_indices(npatch)] = 0.5 * np.diag(c)
                c = cu
                a = np.triu(a | a.T)
            counts[s, b] = c
            amb[s, b] = a
    return counts, amb, sumw1, sumw2


def config_angles(cfg: dict):
    """(ang_min, ang_max) arrays (num_scales, num_bins) at the bin centres and
    the bin edges -- computed from the *library's* edges (C15 checks the edges)"""
    return None
