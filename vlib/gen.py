"""
Shared Hypothesis strategies producing JSON-serialisable case fragments and the
functions that turn them into yaw objects.  Everything random comes from
Hypothesis; nothing here owns an RNG.
"""

from __future__ import annotations

import numpy as np
from hypothesis import strategies as st

# --------------------------------------------------------------------------
# primitive strategies
# --------------------------------------------------------------------------
finite = st.floats(allow_nan=False, allow_infinity=False, width=64)


def floats(lo, hi):
    return st.floats(min_value=lo, max_value=hi, allow_nan=False, allow_infinity=False)


@st.composite
def edges_strategy(draw, min_bins=1, max_bins=5, zlo=0.01, zhi=3.0, min_gap=1e-4):
    """strictly increasing bin edges, built by construction (cumulative gaps)"""
    n = draw(st.integers(min_bins, max_bins))
    start = draw(floats(zlo, zhi))
    gaps = draw(st.lists(floats(min_gap, 1.0), min_size=n, max_size=n))
    edges = [start]
    for g in gaps:
        edges.append(edges[-1] + g)
    return [float(e) for e in edges]


closed_strategy = st.sampled_from(["left", "right"])


@st.composite
def binning_case(draw, **kw):
    return {"edges": draw(edges_strategy(**kw)), "closed": draw(closed_strategy)}


count_value = st.one_of(
    st.just(0.0),
    st.integers(0, 50).map(float),
    floats(1e-3, 1e4),
    st.sampled_from([0.5, 1.5, 1e-3, 12345.0]),
)


exact_count = st.one_of(st.just(0.0), st.integers(0, 60).map(float), st.integers(0, 40).map(lambda i: i / 2.0))
exact_weight = st.one_of(st.integers(0, 30).map(float), st.integers(1, 30).map(float), st.integers(0, 20).map(lambda i: i / 4.0))


def array_strategy(n, elem=count_value):
    return st.lists(elem, min_size=n, max_size=n)


@st.composite
def counts_array(draw, nb, npatch, auto, sparse=None, elem=count_value):
    """counts array (nb, np, np) as nested lists; auto -> upper triangular"""
    if sparse is None:
        sparse = draw(st.sampled_from([0.0, 0.0, 0.3, 0.7, 1.0]))
    flat = draw(array_strategy(nb * npatch * npatch, elem))
    mask = draw(array_strategy(npatch * npatch, floats(0.0, 1.0)))
    arr = np.array(flat, dtype=float).reshape(nb, npatch, npatch)
    m = (np.array(mask).reshape(npatch, npatch) >= sparse).astype(float)
    arr = arr * m[None, :, :]
    if auto:
        arr = np.stack([np.triu(a) for a in arr])
    return arr.tolist()


weight_value = st.one_of(st.integers(0, 40).map(float), floats(1e-3, 100.0))


@st.composite
def sumw_arrays(draw, nb, npatch, auto, elem=weight_value):
    w1 = np.array(draw(array_strategy(nb * npatch, elem))).reshape(nb, npatch)
    if auto:
        w2 = w1.copy()
    else:
        w2 = np.array(draw(array_strategy(nb * npatch, elem))).reshape(nb, npatch)
    return w1.tolist(), w2.tolist()


@st.composite
def normalised_counts_case(draw, binning=None, npatch=None, auto=None, min_patches=1, max_patches=6, positive_weights=False, exact=False):
    if binning is None:
        binning = draw(binning_case())
    nb = len(binning["edges"]) - 1
    if npatch is None:
        npatch = draw(st.integers(min_patches, max_patches))
    if auto is None:
        auto = draw(st.booleans())
    counts = draw(counts_array(nb, npatch, auto, elem=exact_count if exact else count_value))
    w1, w2 = draw(sumw_arrays(nb, npatch, auto, elem=exact_weight if exact else weight_value))
    if positive_weights:
        w1 = (np.array(w1) + 1.0).tolist()
        w2 = (np.array(w2) + 1.0).tolist() if not auto else w1
    return {"binning": binning, "npatch": npatch, "auto": auto, "counts": counts, "w1": w1, "w2": w2}


SUBSETS = [s for s in (("dr",), ("rd",), ("rr",), ("dr", "rd"), ("dr", "rr"), ("rd", "rr"), ("dr", "rd", "rr"))]


@st.composite
def corrfunc_case(draw, subsets=SUBSETS, min_patches=1, max_patches=6, positive_weights=False, exact=False, auto=None, **bkw):
    binning = draw(binning_case(**bkw))
    npatch = draw(st.integers(min_patches, max_patches))
    if auto is None:
        auto = draw(st.booleans())
    present = draw(st.sampled_from(subsets))
    out = {"binning": binning, "npatch": npatch, "auto": auto, "present": list(present)}
    for kind in ("dd",) + tuple(present):
        out[kind] = draw(normalised_counts_case(binning=binning, npatch=npatch, auto=auto, positive_weights=positive_weights, exact=exact))
    return out


data_value = st.one_of(floats(-1e3, 1e3), st.integers(-5, 5).map(float), st.just(0.0))


@st.composite
def sampled_case(draw, binning=None, nsamp=None, elem=data_value, min_samples=1, max_samples=8, **bkw):
    if binning is None:
        binning = draw(binning_case(**bkw))
    nb = len(binning["edges"]) - 1
    if nsamp is None:
        nsamp = draw(st.integers(min_samples, max_samples))
    data = draw(array_strategy(nb, elem))
    samples = np.array(draw(array_strategy(nb * nsamp, elem))).reshape(nsamp, nb).tolist()
    return {"binning": binning, "data": data, "samples": samples}


# --------------------------------------------------------------------------
# builders (case fragment -> yaw object)
# --------------------------------------------------------------------------
def build_binning(b):
    from yaw.binning import Binning

    return Binning(np.array(b["edges"], dtype=float), closed=b["closed"])


def build_counts(c):
    from yaw.correlation.paircounts import PatchedCounts

    return PatchedCounts(build_binning(c["binning"]), np.array(c["counts"], dtype=float), auto=c["auto"])


def build_sumw(c):
    from yaw.correlation.paircounts import PatchedSumWeights

    return PatchedSumWeights(
        build_binning(c["binning"]), np.array(c["w1"], dtype=float), np.array(c["w2"], dtype=float), auto=c["auto"]
    )


def build_normalised(c):
    from yaw.correlation.paircounts import NormalisedCounts

    return NormalisedCounts(build_counts(c), build_sumw(c))


def build_corrfunc(c):
    from yaw.correlation.corrfunc import CorrFunc

    kwargs = {k: build_normalised(c[k]) for k in ["dd"] + list(c["present"])}
    return CorrFunc(**kwargs)


def build_sampled(c, cls=None):
    if cls is None:
        from yaw.correlation.corrdata import CorrData as cls
    return cls(build_binning(c["binning"]), np.array(c["data"], dtype=float), np.array(c["samples"], dtype=float))
