"""
Shared Hypothesis strategies producing JSON-serialisable case fragments and the
functions that turn them into yaw objects.  Everything random comes from
Hypothesis; nothing here owns an RNG.
"""

from __future__ import annotations

import numpy as np
from hypothesis import strategies as st

# --------------------------------------------------------------------------
# primitive strategies
# --------------------------------------------------------------------------
finite = st.floats(allow_nan=False, allow_infinity=False, width=64)


def floats(lo, hi):
    return st.floats(min_value=lo, max_value=hi, allow_nan=False, allow_infinity=False)


@st.composite
def edges_strategy(draw, min_bins=1, max_bins=5, zlo=0.01, zhi=3.0, min_gap=1e-4):
    """strictly increasing bin edges, built by construction (cumulative gaps)"""
    n = draw(st.integers(min_bins, max_bins))
    start = draw(floats(zlo, zhi))
    gaps = draw(st.lists(floats(min_gap, 1.0), min_size=n, max_size=n))
    edges = [start]
    for g in gaps:
        edges.append(edges[-1] + g)
    return [float(e) for e in edges]


closed_strategy = st.sampled_from(["left", "right"])


@st.composite
def binning_case(draw, **kw):
    return {"edges": draw(edges_strategy(**kw)), "closed": draw(closed_strategy)}


count_value = st.one_of(
    st.just(0.0),
    st.integers(0, 50).map(float),
    floats(1e-3, 1e4),
    st.sampled_from([0.5, 1.5, 1e-3, 12345.0]),
)


exact_count = st.one_of(st.just(0.0), st.integers(0, 60).map(float), st.integers(0, 40).map(lambda i: i / 2.0))
exact_weight = st.one_of(st.integers(0, 30).map(float), st.integers(1, 30).map(float), st.integers(0, 20).map(lambda i: i / 4.0))


def array_strategy(n, elem=count_value):
    return st.lists(elem, min_size=n, max_size=n)


@st.composite
def counts_array(draw, nb, npatch, auto, sparse=None, elem=count_value):
    """counts array (nb, np, np) as nested lists; auto -> upper triangular"""
    if sparse is None:
        sparse = draw(st.sampled_from([0.0, 0.0, 0.3, 0.7, 1.0]))
    flat = draw(array_strategy(nb * npatch * npatch, elem))
    mask = draw(array_strategy(npatch * npatch, floats(0.0, 1.0)))
    arr = np.array(flat, dtype=float).reshape(nb, npatch, npatch)
    m = (np.array(mask).reshape(npatch, npatch) >= sparse).astype(float)
    arr = arr * m[None, :, :]
    if auto:
        arr = np.stack([np.triu(a) for a in arr])
    return arr.tolist()


weight_value = st.one_of(st.integers(0, 40).map(float), floats(1e-3, 100.0))


@st.composite
def sumw_arrays(draw, nb, npatch, auto, elem=weight_value):
    w1 = np.array(draw(array_strategy(nb * npatch, elem))).reshape(nb, npatch)
    if auto:
        w2 = w1.copy()
    else:
        w2 = np.array(draw(array_strategy(nb * npatch, elem))).reshape(nb, npatch)
    return w1.tolist(), w2.tolist()


@st.composite
def normalised_counts_case(draw, binning=None, npatch=None, auto=None, min_patches=1, max_patches=6, positive_weights=False, exact=False):
    if binning is None:
        binning = draw(binning_case())
    nb = len(binning["edges"]) - 1
    if npatch is None:
        npatch = draw(st.integers(min_patches, max_patches))
    if auto is None:
        auto = draw(st.booleans())
    counts = draw(counts_array(nb, npatch, auto, elem=exact_count if exact else count_value))
    w1, w2 = draw(sumw_arrays(nb, npatch, auto, elem=exact_weight if exact else weight_value))
    if positive_weights:
        w1 = (np.array(w1) + 1.0).tolist()
        w2 = (np.array(w2) + 1.0).tolist() if not auto else w1
    return {"binning": binning, "npatch": npatch, "auto": auto, "counts": counts, "w1": w1, "w2": w2}


SUBSETS = [s for s in (("dr",), ("rd",), ("rr",), ("dr", "rd"), ("dr", "rr"), ("rd", "rr"), ("dr", "rd", "rr"))]


@st.composite
def corrfunc_case(draw, subsets=SUBSETS, min_patches=1, max_patches=6, positive_weights=False, exact=False, auto=None, **bkw):
    binning = draw(binning_case(**bkw))
    npatch = draw(st.integers(min_patches, max_patches))
    if auto is None:
        auto = draw(st.booleans())
    present = draw(st.sampled_from(subsets))
    out = {"binning": binning, "npatch": npatch, "auto": auto, "present": list(present)}
    for kind in ("dd",) + tuple(present):
        out[kind] = draw(normalised_counts_case(binning=binning, npatch=npatch, auto=auto, positive_weights=positive_weights, exact=exact))
    return out


data_value = st.one_of(floats(-1e3, 1e3), st.integers(-5, 5).map(float), st.just(0.0))


@st.composite
def sampled_case(draw, binning=None, nsamp=None, elem=data_value, min_samples=1, max_samples=8, **bkw):
    if binning is None:
        binning = draw(binning_case(**bkw))
    nb = len(binning["edges"]) - 1
    if nsamp is None:
        nsamp = draw(st.integers(min_samples, max_samples))
    data = draw(array_strategy(nb, elem))
    samples = np.array(draw(array_strategy(nb * nsamp, elem))).reshape(nsamp, nb).tolist()
    return {"binning": binning, "data": data, "samples": samples}


# --------------------------------------------------------------------------
# builders (case fragment -> yaw object)
# --------------------------------------------------------------------------
def build_binning(b):
    from yaw.binning import Binning

    return Binning(np.array(b["edges"], dtype=float), closed=b["closed"])


def build_counts(c):
    from yaw.correlation.paircounts import PatchedCounts

    return PatchedCounts(build_binning(c["binning"]), np.array(c["counts"], dtype=float), auto=c["auto"])


def build_sumw(c):
    from yaw.correlation.paircounts import PatchedSumWeights

    dt = c.get("w_dtype", "f8")  # sums of weights of unweighted samples are object counts: integer arrays are natural input
    return PatchedSumWeights(
        build_binning(c["binning"]), np.array(c["w1"], dtype=float).astype(dt), np.array(c["w2"], dtype=float).astype(dt), auto=c["auto"]
    )


def build_normalised(c):
    from yaw.correlation.paircounts import NormalisedCounts

    return NormalisedCounts(build_counts(c), build_sumw(c))


def build_corrfunc(c):
    from yaw.correlation.corrfunc import CorrFunc

    kwargs = {k: build_normalised(c[k]) for k in ["dd"] + list(c["present"])}
    return CorrFunc(**kwargs)


def build_sampled(c, cls=None):
    if cls is None:
        from yaw.correlation.corrdata import CorrData as cls
    return cls(build_binning(c["binning"]), np.array(c["data"], dtype=float), np.array(c["samples"], dtype=float))


# how the object under test reached the caller: freshly constructed, restored from a file,
# received from another process (pickle), a full-range selection, or a copy.  The statements
# about containers hold for all of them alike.
PROVENANCE = [None, None, None, None, "hdf5", "hdf5", "pickle", "slice", "pslice", "copy"]


def via(obj, how):
    """returns ``obj`` as it arrives by way ``how`` (see PROVENANCE)"""
    if how is None:
        return obj
    if how == "pickle":
        import pickle

        return pickle.loads(pickle.dumps(obj))
    if how == "copy":
        import copy

        return copy.deepcopy(obj)
    if how == "slice":
        return obj.bins[:]
    if how == "pslice":
        return obj.patches[:] if hasattr(obj, "patches") else obj.bins[:]
    if how == "hdf5":
        import os
        import tempfile

        with tempfile.TemporaryDirectory(dir="/dev/shm" if os.path.isdir("/dev/shm") else None) as d:
            path = os.path.join(d, "obj.hdf5")
            obj.to_file(path)
            return type(obj).from_file(path)
    raise ValueError(how)


# --------------------------------------------------------------------------
# configurations and sky scenes for the end-to-end pipeline checks
# --------------------------------------------------------------------------
import math  # noqa: E402

UNITS = ["kpc", "Mpc", "rad", "deg", "arcmin", "arcsec", "kpc/h", "Mpc/h"]
COSMOLOGIES = ["Planck15", "Planck15", "WMAP9", "custom", "curved"]


def loguniform(lo, hi):
    return floats(math.log(lo), math.log(hi)).map(math.exp)


zmin_strategy = st.one_of(
    loguniform(1e-3, 0.05),  # below the (former) hard-coded pruning limit
    loguniform(0.05, 1.6),
    loguniform(0.05, 1.6),
    loguniform(1.6, 5.0),  # beyond the turnover of the angular diameter distance
)


@st.composite
def binning_params(draw, max_bins=4, methods=("linear", "comoving", "logspace", "custom"), many_bins=False):
    """parameters of the redshift binning part of Configuration.create; with ``many_bins``
    hundreds of bins (around the widths where 8-bit bin indices would wrap)"""
    if many_bins:
        methods = [m for m in methods if m != "custom"]
    method = draw(st.sampled_from(methods))
    closed = draw(closed_strategy)
    # (largest first: in short runs Hypothesis favours the first elements of sampled_from)
    nb = draw(st.sampled_from([300, 257, 256, 255, 129, 128, 127])) if many_bins else draw(st.integers(1, max_bins))
    zmin = draw(zmin_strategy)
    if method != "comoving" and draw(st.integers(0, 19)) == 0:
        zmin = 0.0  # boundary (and falsy) value; comoving binning from z=0 is rejected by astropy
    width = draw(st.one_of(loguniform(0.01, 0.3), loguniform(0.3, 4.0)))
    zmax = zmin + width
    if method == "custom":
        fr = sorted(draw(st.lists(floats(0.05, 0.95), min_size=nb - 1, max_size=nb - 1, unique=True)))
        edges = [zmin] + [zmin + f * width for f in fr] + [zmax]
        edges = [float(e) for e in edges]
        if any(b - a < 1e-6 for a, b in zip(edges, edges[1:])):
            edges = [zmin + width * k / nb for k in range(nb + 1)]
        return {"edges": edges, "closed": closed, "zmin": None, "zmax": None, "num_bins": None, "method": "custom"}
    return {"edges": None, "closed": closed, "zmin": float(zmin), "zmax": float(zmax), "num_bins": nb, "method": method}


def binning_edges_reference(b, cosmology="Planck15"):
    """bin edges of a binning_params dict, computed WITHOUT the library (numpy / astropy /
    scipy only), so that generation never fails because of the code under test.  Used to lay
    out scenes and to place redshifts on edges; the checks take the edges that are judged from
    the library's configuration (C15 compares those with an independent oracle)."""
    if b["edges"] is not None:
        return np.asarray(b["edges"], dtype=float)
    zmin, zmax, nb = float(b["zmin"]), float(b["zmax"]), int(b["num_bins"])
    if b["method"] == "linear":
        return np.linspace(zmin, zmax, nb + 1)
    if b["method"] == "logspace":
        lo, hi = np.log([1.0 + zmin, 1.0 + zmax])
        edges = np.logspace(lo, hi, nb + 1, base=np.e) - 1.0
        edges[0], edges[-1] = zmin, zmax
        return edges
    # comoving: invert chi(z) with a bracketing root finder on astropy's distances
    from scipy.optimize import brentq

    from vlib.pipeline import distance_mpc

    chi = lambda z: float(distance_mpc(cosmology, "Mpc/h", z))  # noqa: E731
    targets = np.linspace(chi(zmin), chi(zmax), nb + 1)
    edges = np.array([brentq(lambda z, t=t: chi(z) - t, zmin, zmax, xtol=1e-13, rtol=1e-14) if 0 < i < nb else (zmin if i == 0 else zmax) for i, t in enumerate(targets)])
    return edges


@st.composite
def config_case(draw, max_bins=4, max_scales=3, units=UNITS, allow_rweight=True, theta_range=(2e-3, 0.4)):
    """A complete Configuration.create parameter set whose largest angle (over
    all bin centres) is the drawn target ``theta_max``; returns (cfg, theta_max)."""
    from vlib.pipeline import ANG_FACTOR, distance_mpc

    cosmology = draw(st.sampled_from(COSMOLOGIES))
    b = draw(binning_params(max_bins=max_bins))
    unit = draw(st.sampled_from(units))
    ns = draw(st.integers(1, max_scales))
    theta_max = draw(loguniform(*theta_range))
    edges = binning_edges_reference(b, cosmology)
    mids = (edges[:-1] + edges[1:]) / 2.0
    if unit in ANG_FACTOR:
        conv = 1.0 / ANG_FACTOR[unit]
    else:
        dmin = float(np.min(distance_mpc(cosmology, unit, mids)))
        conv = dmin * (1000.0 if unit.startswith("kpc") else 1.0)
    rmax, rmin = [], []
    for s in range(ns):
        hi = theta_max if s == 0 else theta_max * draw(floats(0.2, 1.0))
        lo = hi * draw(floats(0.02, 0.9))
        rmax.append(float(hi * conv))
        rmin.append(float(lo * conv))
    cfg = dict(b)
    cfg.update(rmin=rmin, rmax=rmax, unit=unit, cosmology=cosmology, scalar_scales=draw(st.booleans()))
    if allow_rweight and draw(st.sampled_from([False, False, True])):
        cfg["rweight"] = draw(st.one_of(st.sampled_from([-1.0, 1.0, 0.0, 2.0, -2.0]), floats(-2.0, 2.0)))
        cfg["resolution"] = draw(st.one_of(st.integers(1, 6), st.integers(7, 60)))
    else:
        cfg["rweight"] = None
        cfg["resolution"] = None
    return cfg, float(theta_max)


BASES = [
    (0.0, math.pi / 2),  # north pole
    (0.0, -math.pi / 2),  # south pole
    (0.0, 0.0),  # RA seam on the equator
    (2 * math.pi - 1e-3, 0.4),  # just below the RA wrap
    (1e-4, -1.2),
]


def tangent_to_sky(base, xy):
    """gnomonic placement of tangent-plane offsets xy (rad) around base (ra, dec)"""
    ra0, dec0 = base
    b = np.array([math.cos(ra0) * math.cos(dec0), math.sin(ra0) * math.cos(dec0), math.sin(dec0)])
    e1 = np.array([-math.sin(ra0), math.cos(ra0), 0.0])
    e2 = np.cross(b, e1)
    xy = np.atleast_2d(np.asarray(xy, dtype=float))
    v = b[None, :] + xy[:, :1] * e1[None, :] + xy[:, 1:2] * e2[None, :]
    v /= np.linalg.norm(v, axis=1)[:, None]
    ra = np.arctan2(v[:, 1], v[:, 0]) % (2 * math.pi)
    ra[ra >= 2 * math.pi] = 0.0
    dec = np.arcsin(np.clip(v[:, 2], -1.0, 1.0))
    return ra, dec


unit_disk = st.tuples(floats(0.0, 1.0), floats(0.0, 2 * math.pi)).map(lambda t: (math.sqrt(t[0]) * math.cos(t[1]), math.sqrt(t[0]) * math.sin(t[1])))
GRID = [(gx, gy) for gx in (-1, 0, 1) for gy in (-1, 0, 1)]
GRID_LARGE = [(gx, gy) for gx in (-2, -1, 0, 1) for gy in (-2, -1, 0, 1)]  # for >9 patches (two-digit patch ids)


@st.composite
def redshift_values(draw, n, edges):
    """redshifts dominated by interesting values: on edges, next to edges, outside"""
    edges = [float(e) for e in edges]
    lo, hi = edges[0], edges[-1]
    span = hi - lo
    elem = st.one_of(
        floats(lo, hi),
        floats(lo, hi),
        floats(lo, hi),
        st.sampled_from(edges),
        st.sampled_from(edges).map(lambda e: math.nextafter(e, math.inf)),
        st.sampled_from(edges).map(lambda e: math.nextafter(e, -math.inf)),
        floats(max(0.0, lo - 0.3 * span), lo),
        floats(hi, hi + 0.3 * span),
    )
    return draw(st.lists(elem, min_size=n, max_size=n))


@st.composite
def scene_case(draw, theta_max, edges, ncat, *, min_patches=1, max_patches=5, max_per_patch=8, need_z=(), weights="any", base=None):
    """
    Sky scene: K patch centres on a jittered 3x3 tangent-plane grid whose spacing
    is drawn *relative to theta_max*; per catalog and per patch an independent
    count and extent (so dense-compact and sparse-wide samples share centres).
    Every catalog gets one object close to every centre (patches never empty).
    Returns {"centers": [[ra, dec]...], "cats": [{ra, dec, w, z}...], ...}.
    """
    if base is None:
        base = draw(st.one_of(st.sampled_from(BASES), st.tuples(floats(0.0, 2 * math.pi - 1e-9), floats(-1.0, 1.0).map(math.asin))))
    K = draw(st.sampled_from([k for k in range(min_patches, max_patches + 1) for _ in range(1 if k == 1 else 2)]))
    spacing = theta_max * draw(loguniform(0.3, 6.0))
    spacing = min(spacing, 0.5)
    cells = draw(st.lists(st.sampled_from(GRID if K <= 9 else GRID_LARGE), min_size=K, max_size=K, unique=True))
    jit = draw(st.lists(st.tuples(floats(-0.25, 0.25), floats(-0.25, 0.25)), min_size=K, max_size=K))
    cxy = np.array([[(c[0] + j[0]) * spacing, (c[1] + j[1]) * spacing] for c, j in zip(cells, jit)])
    cra, cdec = tangent_to_sky(base, cxy)
    cats = []
    for c in range(ncat):
        xs = []
        for p in range(K):
            n = draw(st.integers(1, max_per_patch))
            extent = draw(st.sampled_from([0.03, 0.15, 0.4, 0.7, 1.1])) * spacing
            pts = draw(st.lists(unit_disk, min_size=n, max_size=n))
            for i, (ux, uy) in enumerate(pts):
                e = 0.02 * spacing if i == 0 else extent  # first object anchors the patch
                xs.append([cxy[p, 0] + e * ux, cxy[p, 1] + e * uy])
            if draw(st.sampled_from([False, False, True])) and n >= 2:
                xs.append(list(xs[-1]))  # exact duplicate position
            if K >= 2 and draw(st.integers(0, 3)) == 0:
                # an object very close to (but measurably off) the line equidistant from this and another centre
                q = draw(st.integers(0, K - 1))
                if q != p:
                    mid = 0.5 * (cxy[p] + cxy[q])
                    direction = (cxy[p] - cxy[q]) / max(np.linalg.norm(cxy[p] - cxy[q]), 1e-30)
                    perp = np.array([-direction[1], direction[0]])
                    off = draw(st.sampled_from([1e-9, 3e-9, 1e-8, 1e-7, 1e-6])) * draw(st.sampled_from([1.0, -1.0]))
                    along = draw(floats(-0.3, 0.3)) * spacing
                    xs.append((mid + off * direction + along * perp).tolist())
        ra, dec = tangent_to_sky(base, np.array(xs))
        n = len(ra)
        cat = {"ra": ra.tolist(), "dec": dec.tolist(), "w": None, "z": None}
        wmode = weights if weights != "any" else draw(st.sampled_from(["none", "float", "float"]))
        if wmode == "float":
            cat["w"] = draw(st.lists(st.one_of(floats(0.1, 5.0), st.sampled_from([1.0, 2.0, 0.5])), min_size=n, max_size=n))
        if c in need_z or draw(st.booleans()):
            cat["z"] = draw(redshift_values(n, edges))
        if draw(st.integers(0, 7)) == 0:
            cat["stale_pid"] = draw(st.lists(st.integers(0, K - 1), min_size=n, max_size=n))
        cats.append(cat)
    return {"base": [float(base[0]), float(base[1])], "spacing": float(spacing), "centers": np.column_stack([cra, cdec]).tolist(), "cats": cats}


@st.composite
def allsky_scene(draw, theta_max, edges, ncat, need_z=()):
    """catalogs spread over the whole sphere on 2-6 far-apart centres (patch radii of 90 degrees
    and more): per catalog one object next to every centre plus objects anywhere, most of them
    with a companion within the largest scale; same layout as scene_case's result"""
    # (never exactly on the equator, which is the line equidistant from polar centres)
    sphere_point = st.tuples(floats(0.0, 2 * math.pi - 1e-9), st.tuples(st.sampled_from([1.0, -1.0]), floats(1e-3, 1.0)).map(lambda t: math.asin(t[0] * t[1])))
    layout = draw(st.sampled_from(["poles", "poles", "poles", "random"]))
    if layout == "poles":
        centers = [(0.0, math.pi / 2), (0.0, -math.pi / 2)]
    else:
        drawn = draw(st.lists(sphere_point, min_size=2, max_size=6, unique=True))
        # far apart by construction: a centre closer than 0.5 rad to an earlier one is dropped
        centers = []
        for c in drawn:
            v = np.array([math.cos(c[0]) * math.cos(c[1]), math.sin(c[0]) * math.cos(c[1]), math.sin(c[1])])
            if all(float(v @ u) < math.cos(0.5) for _, u in centers):
                centers.append((c, v))
        centers = [c for c, _ in centers]
        if len(centers) < 2:
            centers = [(0.0, math.pi / 2), (0.0, -math.pi / 2)]
    K = len(centers)

    def offset(p, sep, bearing):
        ra, dec = p
        sd = max(-1.0, min(1.0, math.sin(dec) * math.cos(sep) + math.cos(dec) * math.sin(sep) * math.cos(bearing)))
        y = math.sin(bearing) * math.sin(sep) * math.cos(dec)
        x = math.cos(sep) - math.sin(dec) * sd
        ra2 = (ra + math.atan2(y, x)) % (2 * math.pi)
        return (0.0 if ra2 >= 2 * math.pi else ra2, math.asin(sd))

    cats = []
    for c in range(ncat):
        pts = [offset(cen, 0.01, draw(floats(0.0, 2 * math.pi))) for cen in centers]
        for _ in range(draw(st.integers(2, 10))):
            # anywhere, or next to the equator (for polar centres: the patch boundary) within the largest scale
            p = draw(st.one_of(sphere_point, st.tuples(floats(0.0, 2 * math.pi - 1e-9), st.tuples(st.sampled_from([1.0, -1.0]), floats(0.02, 0.6)).map(lambda t: t[0] * t[1] * theta_max))))
            pts.append(p)
            if draw(st.booleans()):
                pts.append(offset(p, theta_max * draw(floats(0.05, 1.3)), draw(floats(0.0, 2 * math.pi))))
        n = len(pts)
        w = draw(st.one_of(st.none(), st.lists(st.sampled_from([1.0, 2.0, 0.5, 0.25, 3.0]), min_size=n, max_size=n)))
        z = draw(redshift_values(n, edges)) if c in need_z else None
        cats.append({"ra": [float(p[0]) for p in pts], "dec": [float(p[1]) for p in pts], "w": w, "z": z})
    return {"base": [0.0, 0.0], "spacing": math.pi, "centers": [list(map(float, c)) for c in centers], "cats": cats}


@st.composite
def lattice_scene(draw, K, extra=20, ncat=1, edges=None, need_z=(), theta_max=None):
    """catalogs on K (hundreds of) patch centres laid out on a tangent-plane lattice: per
    catalog one object next to every centre plus up to ``extra`` more; same layout as
    scene_case's result.  Base, spacing and the pool of redshifts are drawn by Hypothesis; the
    bulk (offsets, weights, which redshift) is expanded from a drawn seed with numpy, because
    thousands of individual draws exceed the size Hypothesis allows for one case."""
    base = draw(st.one_of(st.sampled_from(BASES), st.tuples(floats(0.0, 2 * math.pi - 1e-9), floats(-1.0, 1.0).map(math.asin))))
    spacing = draw(loguniform(5e-4, 4e-3)) if theta_max is None else min(theta_max * draw(loguniform(1.0, 4.0)), 0.04)
    rng = np.random.default_rng(draw(st.integers(0, 2**32 - 1)))
    cols = int(math.ceil(math.sqrt(K)))
    cxy = np.array([[(k % cols - cols / 2.0) * spacing, (k // cols - cols / 2.0) * spacing] for k in range(K)])
    cra, cdec = tangent_to_sky(base, cxy)
    cats = []
    for c in range(ncat):
        n = K + draw(st.integers(0, extra))
        owner = np.concatenate([np.arange(K), rng.integers(0, K, size=n - K)])
        xy = cxy[owner] + rng.uniform(-0.3, 0.3, size=(n, 2)) * spacing
        ra, dec = tangent_to_sky(base, xy)
        w = None if draw(st.booleans()) else rng.choice([1.0, 2.0, 0.5, 0.25, 3.0], size=n).tolist()
        z = None
        if c in need_z:
            pool = draw(redshift_values(8, edges))
            z = [pool[i] for i in rng.integers(0, 8, size=n)]
        cats.append({"ra": list(map(float, ra)), "dec": list(map(float, dec)), "w": w, "z": z})
    return {"base": list(base), "spacing": spacing, "centers": np.column_stack([cra, cdec]).tolist(), "cats": cats}


# overall magnitude of the sums of weights: weights in physical units (fluxes of 1e-17) or
# normalised to unit sum are as legitimate as weights of order one; powers of two keep the
# exactly representable entries exact
WEIGHT_SCALES = [1.0, 1.0, 1.0, 1.0, 2.0**-56, 2.0**-30, 2.0**-14, 2.0**40]


def scale_weights(c, f):
    """multiply the sum-of-weights arrays of a normalised-counts case by f (in place)"""
    if f != 1.0 and "w1" in c:
        c["w1"] = (np.array(c["w1"], float) * f).tolist()
        c["w2"] = (np.array(c["w2"], float) * f).tolist()
    return c


def expand_counts(c):
    """a normalised-counts case given in compact form {"expand": seed, ...} (hundreds of
    patches) is filled with exactly representable entries from a numpy generator seeded with the
    drawn seed; other cases are returned unchanged"""
    if "expand" not in c:
        return c
    rng = np.random.default_rng(int(c["expand"]))
    nb, P = len(c["binning"]["edges"]) - 1, int(c["npatch"])
    counts = rng.integers(0, 64, size=(nb, P, P)) / 4.0
    counts *= rng.random((1, P, P)) < 0.3  # sparse patch pairs
    if c["auto"]:
        counts = np.triu(counts)
    w1 = rng.integers(1, 32, size=(nb, P)) / 4.0
    w2 = w1.copy() if c["auto"] else rng.integers(1, 32, size=(nb, P)) / 4.0
    return dict(c, counts=counts.tolist(), w1=w1.tolist(), w2=w2.tolist())
