"""
Reference implementations (deliberately naive, loop-based, independent of the
library's vectorised tricks) for jackknife resampling, estimators, covariance.
"""

from __future__ import annotations

import numpy as np


def loo_counts_total(counts: np.ndarray, k: int | None) -> np.ndarray:
    """sum over all patch pairs (i, j) with i != k and j != k, per bin; the
    deleted row/column are removed explicitly"""
    c = np.asarray(counts, dtype=float)
    if k is not None:
        c = np.delete(np.delete(c, k, axis=1), k, axis=2)
    if c.shape[1] > 32:  # hundreds of patches: same explicit deletion, summed by numpy
        return c.reshape(c.shape[0], -1).sum(axis=1)
    out = np.zeros(c.shape[0])
    for b in range(c.shape[0]):
        tot = 0.0
        for i in range(c.shape[1]):
            for j in range(c.shape[2]):
                tot += c[b, i, j]
        out[b] = tot
    return out


def loo_norm(w1: np.ndarray, w2: np.ndarray, auto: bool, k: int | None) -> np.ndarray:
    """normalisation: (sum_{i!=k} w1_i)(sum_{j!=k} w2_j) for cross;
    sum_{i<j} w_i w_j + 1/2 sum_i w_i^2 (= number of unordered pairs) for auto"""
    w1 = np.asarray(w1, dtype=float)
    w2 = np.asarray(w2, dtype=float)
    if k is not None:
        w1 = np.delete(w1, k, axis=1)
        w2 = np.delete(w2, k, axis=1)
    nb, npatch = w1.shape
    if npatch > 32:
        prod = np.einsum("bi,bj->bij", w1, w2)
        if auto:
            prod = np.triu(prod, 1) + 0.5 * prod * np.eye(npatch)[None, :, :]
        return prod.reshape(nb, -1).sum(axis=1)
    out = np.zeros(nb)
    for b in range(nb):
        tot = 0.0
        for i in range(npatch):
            for j in range(npatch):
                if auto:
                    if j > i:
                        tot += w1[b, i] * w2[b, j]
                    elif j == i:
                        tot += 0.5 * w1[b, i] * w2[b, j]
                else:
                    tot += w1[b, i] * w2[b, j]
        out[b] = tot
    return out


def normalised_total(nc: dict, k: int | None) -> np.ndarray:
    with np.errstate(all="ignore"):
        return loo_counts_total(nc["counts"], k) / loo_norm(nc["w1"], nc["w2"], nc["auto"], k)


def estimator(terms: dict) -> tuple[str, list[np.ndarray]]:
    """returns (name, list of acceptable results).  terms: dd plus subset of
    dr/rd/rr (normalised totals).  Landy-Szalay when rr is present, with a
    missing rd replaced by dr; Davis-Peebles otherwise (either mixed term is
    acceptable when both exist)."""
    dd = terms["dd"]
    with np.errstate(all="ignore"):
        if "rr" in terms:
            if "dr" not in terms:
                return "LS-without-dr", []
            dr = terms["dr"]
            rd = terms.get("rd", dr)
            return "LS", [(dd - dr - rd + terms["rr"]) / terms["rr"]]
        outs = []
        if "dr" in terms:
            outs.append(dd / terms["dr"] - 1.0)
        if "rd" in terms:
            outs.append(dd / terms["rd"] - 1.0)
        return "DP", outs


def jackknife_cov(samples: np.ndarray) -> np.ndarray:
    s = np.asarray(samples, dtype=float)
    n, nb = s.shape
    mean = np.zeros(nb)
    for k in range(n):
        mean += s[k]
    mean /= n
    cov = np.zeros((nb, nb))
    for k in range(n):
        d = s[k] - mean
        for a in range(nb):
            for b in range(nb):
                cov[a, b] += d[a] * d[b]
    return cov * (n - 1) / n


def close(a, b, rtol=1e-10, atol=0.0):
    a = np.asarray(a, dtype=float)
    b = np.asarray(b, dtype=float)
    if a.shape != b.shape:
        return False
    return bool(np.allclose(a, b, rtol=rtol, atol=atol, equal_nan=True))
