"""
Process-death injection at file-system syscall granularity, using strace.

A *workload* is a Python callable executed in a child forked from the current
(already imported) process.  The child blocks on a pipe until strace has
attached, then runs.  Three kinds of runs:

* discover(): full trace with fd->path decoding (-y); returns the set of paths
  under the cache root that the workload touches;
* count(): trace restricted to these paths (-P); returns the ordered list of
  events [(kind, ordinal-within-kind)] -- the crash points;
* kill_at(kind, n): same restriction plus ``inject=<kind>:signal=SIGKILL:when=n``:
  the process is killed on *entry* of the n-th such call, i.e. between two
  file-system operations.  What is left on disk is the surviving state.

Verified in this sandbox (strace 6.1): ptrace attach is permitted, -P limits
both tracing and injection to the listed paths, counters are per syscall kind
and per process, the kill happens before the call executes.
"""

from __future__ import annotations

import os
import re
import shutil
import signal
import subprocess
import tempfile
from pathlib import Path

KINDS = ["openat", "write", "pwrite64", "pwritev", "writev", "mkdir", "mkdirat", "unlink", "unlinkat", "rmdir", "rename", "renameat", "renameat2", "ftruncate", "truncate", "sendfile", "copy_file_range", "fallocate", "link", "linkat", "symlink", "symlinkat", "chmod", "fchmod", "fchmodat", "utimensat", "fsync", "fdatasync"]


class StraceUnavailable(Exception):
    pass


def have_strace():
    return shutil.which("strace") is not None


def _spawn_child(workload):
    r, w = os.pipe()
    pid = os.fork()
    if pid == 0:
        try:
            os.close(w)
            os.read(r, 1)
            workload()
            os._exit(0)
        except BaseException:  # noqa
            os._exit(3)
    os.close(r)
    return pid, w


def _run_traced(workload, strace_args, outfile, timeout=120):
    pid, w = _spawn_child(workload)
    cmd = ["strace", "-f", "-o", str(outfile)] + strace_args + ["-p", str(pid)]
    st = subprocess.Popen(cmd, stderr=subprocess.PIPE, text=True)
    line = st.stderr.readline()
    if "attached" not in line:
        os.kill(pid, signal.SIGKILL)
        os.waitpid(pid, 0)
        st.kill()
        raise StraceUnavailable(f"strace did not attach: {line!r} {st.stderr.read()[:500]}")
    os.write(w, b"g")
    os.close(w)
    _, status = os.waitpid(pid, 0)
    try:
        st.wait(timeout=timeout)
    except subprocess.TimeoutExpired:
        st.kill()
    st.stderr.close()
    return status


_LINE = re.compile(r"^(\d+)\s+(\w+)\((.*)$")


def discover(workload, root: Path, tmpdir: Path):
    """paths under root touched by the workload (full trace, fd paths decoded)"""
    out = tmpdir / "discover.trace"
    status = _run_traced(workload, ["-y", "-e", "trace=" + ",".join(KINDS)], out)
    paths = set()
    root_s = str(root)
    for line in out.read_text(errors="replace").splitlines():
        for m in re.finditer(r'"(' + re.escape(root_s) + r'[^"]*)"|<(' + re.escape(root_s) + r"[^>]*)>", line):
            p = m.group(1) or m.group(2)
            paths.add(p.rstrip("/"))
    # directories of all paths, too (dirfd-relative calls match on the directory)
    for p in list(paths):
        q = Path(p)
        while str(q).startswith(root_s) and str(q) != root_s:
            q = q.parent
            paths.add(str(q))
    paths.add(root_s)
    return sorted(paths), status


def _path_args(paths):
    args = []
    for p in paths:
        args += ["-P", p]
    return args


def count(workload, paths, tmpdir: Path):
    """ordered crash points [(kind, n)] for the main workload process"""
    out = tmpdir / "count.trace"
    status = _run_traced(workload, _path_args(paths) + ["-e", "trace=" + ",".join(KINDS)], out)
    events = []
    counters = {}
    main_pid = None
    for line in out.read_text(errors="replace").splitlines():
        m = _LINE.match(line)
        if not m:
            continue
        pid, kind = m.group(1), m.group(2)
        if main_pid is None:
            main_pid = pid
        if pid != main_pid or kind not in KINDS:
            continue
        if "<unfinished" in line and "resumed" not in line:
            pass
        counters[kind] = counters.get(kind, 0) + 1
        events.append((kind, counters[kind], line[:160]))
    return events, status


def kill_at(workload, paths, kind, n, tmpdir: Path):
    out = tmpdir / "kill.trace"
    status = _run_traced(workload, _path_args(paths) + ["-e", "trace=" + ",".join(KINDS), "-e", f"inject={kind}:signal=SIGKILL:when={n}"], out)
    killed = os.WIFSIGNALED(status) and os.WTERMSIG(status) == signal.SIGKILL
    return killed, status


def tree_state(root: Path):
    """hashable description of a directory tree: ((relpath, bytes) ...)"""
    import hashlib

    if not root.exists():
        return "<absent>"
    h = hashlib.sha1()
    if root.is_file():
        h.update(root.read_bytes())
        return "file:" + h.hexdigest()
    for dirpath, dirs, files in sorted(os.walk(root)):
        dirs.sort()
        h.update(("D:" + os.path.relpath(dirpath, root)).encode())
        for f in sorted(files):
            p = Path(dirpath) / f
            h.update(("F:" + str(p.relative_to(root))).encode() + b"\0" + p.read_bytes() + b"\1")
    return h.hexdigest()
