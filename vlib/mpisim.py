"""
Simulation server for C06: a separate interpreter in which the simulated
``mpi4py`` is importable, so that yaw selects its MPI code paths at import.

Protocol: JSON lines on stdin/stdout.  Request {"case": ..., "dir": ...};
response {"outcome", "detail", "leftovers", "stats", "root", "errors", "exec_log"}.
Start with:  python -m vlib.mpisim   (PYTHONPATH must contain /verif and the repo src)
"""

from __future__ import annotations

import json
import os
import subprocess
import sys
from pathlib import Path

HERE = Path(__file__).resolve().parent


def serve():
    sys.path.insert(0, str(HERE / "fakempi"))
    real_stdout = os.fdopen(os.dup(1), "w")
    os.dup2(2, 1)  # anything printed by libraries goes to stderr
    sys.stdout = sys.stderr
    from mpi4py import MPI  # the simulated one

    assert "fakempi" in MPI.__file__, MPI.__file__
    import yaw  # noqa: F401  (selects MPI code paths: COMM_WORLD reports size 2 at import)
    from yaw.utils import parallel

    assert parallel.use_mpi(), "yaw did not select its MPI branch"
    from vlib import mpi_workloads as wl

    real_stdout.write(json.dumps({"ready": True, "yaw": yaw.__file__}) + "\n")
    real_stdout.flush()
    for line in sys.stdin:
        line = line.strip()
        if not line:
            continue
        req = json.loads(line)
        case = req["case"]
        world = MPI.World(int(case["size"]), case.get("tape", []), case.get("nodes"))
        MPI.set_world(world)
        wl._EXEC_LOG.clear()

        def fn(rank):
            return wl.workload(case, req["dir"])

        try:
            outcome, detail, leftovers = world.run(fn)
        except Exception as e:  # noqa
            outcome, detail, leftovers = "simulator-error", f"{type(e).__name__}: {e}", []
        finally:
            MPI.set_world(None)
        import traceback

        errs = {}
        for r, e in world.errors.items():
            tb = traceback.extract_tb(e.__traceback__)
            frames = [f"{Path(f.filename).name}:{f.name}" for f in tb if "/yaw/" in f.filename]
            errs[str(r)] = {"type": type(e).__name__, "msg": str(e)[:300], "frame": frames[-1] if frames else "outside-yaw"}
        resp = {
            "outcome": outcome,
            "detail": detail[:1000],
            "leftovers": [{"src": m.src, "dst": m.dst, "tag": m.tag, "payload": type(m.payload).__name__ if not isinstance(m.payload, type) else m.payload.__name__} for m in leftovers],
            "stats": world.stats,
            "root": world.results.get(0),
            "ranks_returned": sorted(world.results),
            "errors": errs,
            "exec_log": sorted(wl._EXEC_LOG),
            "choices": len(world.choices),
            "trace_tail": [list(map(str, t)) for t in world.trace[-30:]],
        }
        real_stdout.write(json.dumps(resp, default=str) + "\n")
        real_stdout.flush()


class SimClient:
    """persistent simulation server owned by one harness process"""

    def __init__(self):
        self.proc = None

    def start(self):
        env = dict(os.environ)
        repo_src = str(Path(os.environ.get("VERIF_REPO", "/repo")) / "src")
        env["PYTHONPATH"] = os.pathsep.join([repo_src, str(HERE.parent), env.get("PYTHONPATH", "")])
        env["YAW_NUM_THREADS"] = "64"
        self.proc = subprocess.Popen([sys.executable, "-c", "import sys; sys.path.append(sys.argv[1]); from vlib.mpisim import serve; serve()", str(HERE.parent / ".deps")], stdin=subprocess.PIPE, stdout=subprocess.PIPE, stderr=subprocess.DEVNULL, text=True, env=env)
        hello = self.proc.stdout.readline()
        if not hello:
            raise RuntimeError("simulation server did not start")
        info = json.loads(hello)
        if not str(info.get("yaw", "")).startswith(repo_src):
            raise RuntimeError(f"simulation server imported yaw from {info.get('yaw')}")

    def run(self, case, directory):
        if self.proc is None or self.proc.poll() is not None:
            self.start()
        self.proc.stdin.write(json.dumps({"case": case, "dir": str(directory)}) + "\n")
        self.proc.stdin.flush()
        line = self.proc.stdout.readline()
        if not line:
            rc = self.proc.poll()
            self.proc = None
            return {"outcome": "server-died", "detail": f"exit {rc}", "leftovers": [], "stats": {}, "root": None, "errors": {}, "exec_log": []}
        return json.loads(line)

    def close(self):
        if self.proc is not None:
            try:
                self.proc.stdin.close()
                self.proc.wait(timeout=5)
            except Exception:  # noqa
                self.proc.kill()
            self.proc = None


if __name__ == "__main__":
    serve()
