"""
Input sources for catalog creation built from a generated table:
pandas DataFrame, FITS, HDF5, Parquet files; plus recording wrappers used by
C18 to observe which slices the library requests.
"""

from __future__ import annotations

from pathlib import Path

import numpy as np

DTYPES = {"f8": np.float64, "f4": np.float32, "i4": np.int32, "i8": np.int64, "i2": np.int16, "i1": np.int8, "u1": np.uint8, "u2": np.uint16, "u4": np.uint32, "f2": np.float16}


def table_columns(table: dict):
    """generated table -> dict column name -> numpy array in the generated dtype"""
    cols = {}
    for name in ("ra", "dec", "w", "z", "pid"):
        if table.get(name) is not None:
            dt = table.get("dtypes", {}).get(name, "f8")
            if name == "pid":
                dt = table.get("dtypes", {}).get(name, "i8")
            cols[name] = np.asarray(table[name]).astype(DTYPES[dt])
    return cols


def column_names(table: dict, use_pid=False):
    names = dict(ra_name="ra", dec_name="dec")
    if table.get("w") is not None:
        names["weight_name"] = "w"
    if table.get("z") is not None:
        names["redshift_name"] = "z"
    if use_pid:
        names["patch_name"] = "pid"
    return names


FILE_LAYOUTS = {
    # documented alternatives for handing over the same file: other accepted suffixes, a table
    # in another FITS extension (reader option hdu), HDF5 datasets inside a group
    "fits": [None, None, {"suffix": ".cat"}, {"hdu": 2}],
    "hdf5": [None, None, {"suffix": ".h5"}, {"suffix": ".hdf"}, {"group": "data/set1"}, {"chunks": 7}, {"chunks": 64, "compression": "gzip"}],
    "parquet": [{"empty_groups": [1]}, None, {"empty_groups": [0, 2]}, None, {"suffix": ".pq"}, {"suffix": ".pqt", "empty_groups": [1, 2]}, {"suffix": ".parq"}, {"empty_groups": [3, 99]}],
}


def write_source(kind: str, table: dict, tmp: Path, row_group_size=None, layout=None):
    """returns the source object or path for Catalog.from_dataframe/from_file.  With a
    ``layout`` (see FILE_LAYOUTS) returns (path, extra reader kwargs, prefix for column names)."""
    if layout is not None:
        return _write_layout(kind, table, tmp, row_group_size, layout)
    cols = table_columns(table)
    if kind == "dataframe":
        import pandas as pd

        df = pd.DataFrame(cols)
        if table.get("index") is not None:
            # non-default row labels (e.g. a frame that was filtered or shuffled before): rows are
            # still to be taken by position
            df.index = table["index"]
        return df
    if kind == "fits":
        from astropy.table import Table

        path = tmp / "input.fits"
        # FITS has no signed-byte column type; astropy's table writer stores int8 as a logical
        # column (values collapse to 0/1), so the file would not contain the generated values
        cols = {k: (v.astype(np.int16) if v.dtype == np.int8 else v) for k, v in cols.items()}
        Table(cols).write(path, format="fits", overwrite=True)
        return path
    if kind == "hdf5":
        import h5py

        path = tmp / "input.hdf5"
        with h5py.File(path, "w") as f:
            for k, v in cols.items():
                f.create_dataset(k, data=v)
        return path
    if kind == "parquet":
        import pyarrow as pa
        from pyarrow import parquet

        path = tmp / "input.parquet"
        parquet.write_table(pa.table(cols), path, row_group_size=row_group_size or max(1, len(cols["ra"])))
        return path
    raise ValueError(kind)


def _write_layout(kind, table, tmp, row_group_size, layout):
    cols = table_columns(table)
    suffix = layout.get("suffix")
    if kind == "fits":
        from astropy.io import fits
        from astropy.table import Table

        cols = {k: (v.astype(np.int16) if v.dtype == np.int8 else v) for k, v in cols.items()}
        path = tmp / ("input" + (suffix or ".fits"))
        hdus = [fits.PrimaryHDU()]
        if layout.get("hdu") == 2:
            # a first table extension with other content and another length
            hdus.append(fits.table_to_hdu(Table({k: np.zeros(3, dtype=v.dtype) for k, v in cols.items()})))
        hdus.append(fits.table_to_hdu(Table(cols)))
        fits.HDUList(hdus).writeto(path, overwrite=True)
        return path, ({"hdu": 2} if layout.get("hdu") == 2 else {}), ""
    if kind == "hdf5":
        import h5py

        path = tmp / ("input" + (suffix or ".hdf5"))
        prefix = (layout["group"] + "/") if layout.get("group") else ""
        opts = {}
        if layout.get("chunks"):  # chunked (optionally compressed) storage layout instead of contiguous
            opts["chunks"] = (max(1, min(int(layout["chunks"]), len(cols["ra"]))),)
            if layout.get("compression"):
                opts["compression"] = layout["compression"]
        with h5py.File(path, "w") as f:
            for k, v in cols.items():
                f.create_dataset(prefix + k, data=v, **opts)
        return path, {}, prefix
    if kind == "parquet":
        import pyarrow as pa
        from pyarrow import parquet

        path = tmp / ("input" + (suffix or ".parquet"))
        tab = pa.table(cols)
        if layout.get("empty_groups"):
            # a valid Parquet file may hold row groups without rows (writers that flush per batch
            # produce them); positions are row-group indices before which an empty group is put
            size = row_group_size or max(1, len(cols["ra"]))
            pieces = [tab.slice(i, size) for i in range(0, max(1, tab.num_rows), size)]
            with parquet.ParquetWriter(path, tab.schema) as writer:
                for k, piece in enumerate(pieces):
                    if k in layout["empty_groups"]:
                        writer.write_table(tab.slice(0, 0))
                    if piece.num_rows:
                        writer.write_table(piece)
                if len(pieces) in layout["empty_groups"]:
                    writer.write_table(tab.slice(0, 0))
            return path, {}, ""
        parquet.write_table(tab, path, row_group_size=row_group_size or max(1, len(cols["ra"])))
        return path, {}, ""
    raise ValueError(kind)


def expected_records(table: dict, degrees: bool):
    """float64 records (ra, dec[, w][, z]) the catalog must hold, ra/dec in radian"""
    cols = table_columns(table)
    ra = cols["ra"].astype(np.float64)
    dec = cols["dec"].astype(np.float64)
    if degrees:
        ra, dec = np.deg2rad(ra), np.deg2rad(dec)
    out = [ra, dec]
    names = ["ra", "dec"]
    if "w" in cols:
        out.append(cols["w"].astype(np.float64))
        names.append("weights")
    if "z" in cols:
        out.append(cols["z"].astype(np.float64))
        names.append("redshifts")
    return names, np.column_stack(out)


def stored_records(catalog):
    """dict patch id -> 2-dim float64 array with the same column order"""
    out = {}
    for pid, patch in catalog.items():
        data = patch.load_data()
        out[int(pid)] = np.column_stack([data[n].astype(np.float64) for n in data.dtype.names]) if len(data) else np.empty((0, len(data.dtype.names)))
    return out


def multiset(rows: np.ndarray):
    """multiset of records as a sorted tuple of byte strings (bit patterns)"""
    rows = np.ascontiguousarray(rows, dtype=np.float64)
    return sorted(r.tobytes() for r in rows)


# --------------------------------------------------------------------------
# recording sources (C18)
# --------------------------------------------------------------------------
class RecordingColumn:
    def __init__(self, arr):
        self._arr = arr

    def to_numpy(self):
        return np.asarray(self._arr)


class RecordingFrame:
    """Minimal data-frame-like object: len(), slicing by row, column access with
    .to_numpy(); logs every row slice that is requested."""

    def __init__(self, cols: dict, log: list, start=0, stop=None):
        self._cols = cols
        self._log = log
        n = len(next(iter(cols.values())))
        self._start = start
        self._stop = n if stop is None else stop

    def __len__(self):
        return self._stop - self._start

    def __getitem__(self, item):
        if isinstance(item, slice):
            n = len(self)
            start, stop, step = item.indices(n)
            if step != 1:
                raise ValueError("only contiguous slices are supported")
            self._log.append(("rows", self._start + start, self._start + max(start, stop), item.start, item.stop))
            return RecordingFrame(self._cols, self._log, self._start + start, self._start + max(start, stop))
        if isinstance(item, str):
            if self._start == 0 and self._stop == len(next(iter(self._cols.values()))) and self._stop > 0:
                self._log.append(("column-of-whole-frame", item))
            return RecordingColumn(self._cols[item][self._start : self._stop])
        if isinstance(item, (list, tuple)) and all(isinstance(c, str) for c in item):
            # column subset: still no row data requested
            return RecordingFrame({c: self._cols[c] for c in item}, self._log, self._start, self._stop)
        raise TypeError(f"unsupported index {item!r}")

    # ---- metadata a pandas frame answers without handing out row data; a reader that merely
    # looks at them must not fail on the recording stand-in
    @property
    def columns(self):
        import pandas as pd

        return pd.Index(list(self._cols))

    def keys(self):
        return self.columns

    @property
    def dtypes(self):
        import pandas as pd

        return pd.Series({c: np.asarray(v[:0]).dtype for c, v in self._cols.items()})

    @property
    def shape(self):
        return (len(self), len(self._cols))

    @property
    def empty(self):
        return len(self) == 0

    @property
    def index(self):
        import pandas as pd

        return pd.RangeIndex(self._start, self._stop)

    def __contains__(self, name):
        return name in self._cols

    def __iter__(self):
        return iter(self._cols)

    @property
    def iloc(self):
        frame = self

        class _ILoc:
            def __getitem__(self, item):
                if isinstance(item, slice):
                    return frame[item]
                raise TypeError(f"unsupported positional index {item!r}")

        return _ILoc()
