"""Simulated mpi4py package (see MPI.py). Injected via sys.path *before* yaw is
imported, in a dedicated process, because yaw selects its MPI code at import."""
from . import MPI  # noqa: F401

__version__ = "0.0-simulated"
