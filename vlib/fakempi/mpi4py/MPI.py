"""
Executable model of the part of the MPI standard that yaw uses, with the
harness owning every choice the standard leaves open.

Ranks are Python threads running the same function (SPMD).  Exactly one thread
runs at a time; control returns to the scheduler at every MPI call.  Semantics
(MPI-3.1 sections 3.4-3.5 and 5):

* messages between one (sender, receiver, communicator) pair are non-overtaking:
  a receive matches the *earliest* message of a sender that fits its tag;
* a wildcard receive (ANY_SOURCE) may match the eligible message of any sender:
  the choice tape decides;
* a standard-mode send may complete eagerly (buffered) or only when matched
  (synchronous): the tape decides per send;
* collectives block until all members have entered, except that the root of a
  bcast and the non-roots of a gather may leave early (tape decides for bcast);
* calling different collectives at the same position, or all live ranks being
  blocked, is reported as an error / deadlock.

The tape is a list of ints, used cyclically (an empty tape means choice 0 everywhere).
"""

from __future__ import annotations

import pickle
import threading

ANY_SOURCE = -1
ANY_TAG = -1
UNDEFINED = -32766
COMM_NULL = None


class SimulationError(Exception):
    pass


class DeadlockError(SimulationError):
    pass


class _Abort(BaseException):
    """raised inside rank threads to unwind them when the simulation is torn down"""


def _copy(obj):
    return pickle.loads(pickle.dumps(obj, protocol=pickle.HIGHEST_PROTOCOL))


class Message:
    __slots__ = ("src", "dst", "tag", "payload", "sync", "matched", "seq")

    def __init__(self, src, dst, tag, payload, sync, seq):
        self.src, self.dst, self.tag, self.payload, self.sync, self.matched, self.seq = src, dst, tag, payload, sync, False, seq


class World:
    """one simulation run"""

    def __init__(self, size, tape=(), nodes=None):
        self.size = size
        # processor name per rank (ranks on different "nodes" report different names)
        self.nodes = list(nodes) if nodes else ["simulated-node"] * size
        assert len(self.nodes) == size
        self.tape = list(tape)
        self.pos = 0
        self.choices = []  # (label, n, chosen)
        self.lock = threading.Condition()
        self.current = None  # rank that holds the baton (None: scheduler)
        self.threads = {}
        self.rank_of_thread = {}
        self.state = {}  # rank -> "ready" | "blocked" | "done" | "failed"
        self.block_test = {}  # rank -> callable returning True when it may proceed
        self.block_what = {}
        self.results = {}
        self.errors = {}
        self.msg_seq = 0
        self.queues = {}  # (comm_id) -> list[Message] in send order
        self.coll = {}  # (comm_id, seq) -> dict
        self.coll_pos = {}  # (comm_id, rank) -> next collective sequence number
        self.comm_counter = 0
        self.comms = {}
        self.aborting = False
        self.trace = []
        self.stats = {"wildcard_multi": 0, "eager_sends": 0, "sync_sends": 0, "overtakes": 0, "sends": 0, "recvs": 0, "collectives": 0, "steps": 0}
        self.world_comm = Comm(self, list(range(size)), self._new_comm_id())

    # ---- tape
    def choose(self, n, label):
        if n <= 1:
            return 0
        # the tape is used cyclically so that a short tape still shapes the whole run
        v = self.tape[self.pos % len(self.tape)] if self.tape else 0
        self.pos += 1
        c = v % n
        self.choices.append((label, n, c))
        return c

    def _new_comm_id(self):
        self.comm_counter += 1
        return self.comm_counter

    # ---- thread plumbing
    def my_rank(self):
        try:
            return self.rank_of_thread[threading.get_ident()]
        except KeyError:
            raise SimulationError("MPI call from a thread that is not a simulated rank") from None

    def _yield(self, rank, test=None, what=""):
        """give the baton back to the scheduler; return when scheduled again
        (and, if test is given, only when test() is true)"""
        with self.lock:
            if test is not None and not test():
                self.state[rank] = "blocked"
                self.block_test[rank] = test
                self.block_what[rank] = what
            else:
                self.state[rank] = "ready"
            self.current = None
            self.lock.notify_all()
            while self.current != rank:
                if self.aborting:
                    raise _Abort()
                self.lock.wait()
            if self.aborting:
                raise _Abort()
            self.state[rank] = "running"

    def _rank_main(self, rank, fn):
        self.rank_of_thread[threading.get_ident()] = rank
        with self.lock:
            while self.current != rank:
                if self.aborting:
                    return
                self.lock.wait()
            self.state[rank] = "running"
        try:
            self.results[rank] = fn(rank)
            final = "done"
        except _Abort:
            final = "failed"
        except BaseException as e:  # noqa
            self.errors[rank] = e
            final = "failed"
        with self.lock:
            self.state[rank] = final
            self.current = None
            self.lock.notify_all()

    def run(self, fn, max_steps=2_000_000):
        for r in range(self.size):
            self.state[r] = "ready"
            t = threading.Thread(target=self._rank_main, args=(r, fn), daemon=True)
            self.threads[r] = t
        for t in self.threads.values():
            t.start()
        outcome = "ok"
        detail = ""
        with self.lock:
            while True:
                # re-evaluate blocked ranks
                for r, st in self.state.items():
                    if st == "blocked" and self.block_test[r]():
                        self.state[r] = "ready"
                runnable = [r for r, st in sorted(self.state.items()) if st == "ready"]
                live = [r for r, st in self.state.items() if st not in ("done", "failed")]
                if self.errors:
                    outcome = "exception"
                    r0 = sorted(self.errors)[0]
                    detail = f"rank {r0}: {type(self.errors[r0]).__name__}: {self.errors[r0]}"
                    break
                if not live:
                    break
                if not runnable:
                    outcome = "deadlock"
                    detail = "; ".join(f"rank {r} blocked in {self.block_what.get(r, '?')}" for r in sorted(live))
                    break
                self.stats["steps"] += 1
                if self.stats["steps"] > max_steps:
                    outcome = "step-limit"
                    break
                k = self.choose(len(runnable), "schedule")
                nxt = runnable[k]
                self.current = nxt
                self.lock.notify_all()
                while self.current is not None:
                    self.lock.wait()
            # tear down
            self.aborting = True
            self.lock.notify_all()
        for t in self.threads.values():
            t.join(timeout=5)
        leftovers = [m for q in self.queues.values() for m in q if not m.matched]
        return outcome, detail, leftovers


_WORLD: World | None = None


def _world() -> World:
    if _WORLD is None:
        raise SimulationError("no simulated MPI world is active")
    return _WORLD


def set_world(world):
    global _WORLD
    _WORLD = world


def Get_processor_name():
    if _WORLD is None:
        return "simulated-node"
    return _WORLD.nodes[_WORLD.my_rank()]


def _lookup_comm(comm_id):
    return _world().comms[comm_id]


def _get_world_proxy():
    return COMM_WORLD


class Comm:
    def __init__(self, world: World, members, comm_id):
        self._w = world
        self._members = list(members)  # world ranks in comm-rank order
        self._id = comm_id
        world.comms[comm_id] = self

    def __reduce__(self):
        # communicators are handles: they pickle by reference (as predefined
        # communicators do in mpi4py), never by value
        return (_lookup_comm, (self._id,))

    # world-independent handle for COMM_WORLD (module attribute below) ----------------
    def _wr(self):
        return self._w.my_rank()

    def Get_size(self):
        return len(self._members)

    def Get_rank(self):
        return self._members.index(self._wr())

    # ---- point to point
    def send(self, obj, dest, tag=0):
        w = self._w
        me = self._wr()
        dst = self._members[dest]
        sync = w.choose(2, "send-mode") == 1
        w.msg_seq += 1
        msg = Message(me, dst, tag, _copy(obj), sync, w.msg_seq)
        w.queues.setdefault(self._id, []).append(msg)
        w.stats["sends"] += 1
        w.stats["sync_sends" if sync else "eager_sends"] += 1
        w.trace.append(("send", me, dst, tag, "sync" if sync else "eager", type(obj).__name__ if not isinstance(obj, type) else obj.__name__))
        if sync:
            w._yield(me, lambda: msg.matched, f"send(dest={dst}, tag={tag}) [synchronous]")
        else:
            w._yield(me)

    def _candidates(self, me, source, tag):
        """earliest matching message per sender (non-overtaking)"""
        first = {}
        for m in self._w.queues.get(self._id, []):
            if m.matched or m.dst != me:
                continue
            if tag != ANY_TAG and m.tag != tag:
                continue
            if source != ANY_SOURCE and m.src != self._members[source]:
                continue
            if m.src not in first:
                first[m.src] = m
        return [first[s] for s in sorted(first)]

    def recv(self, source=ANY_SOURCE, tag=ANY_TAG, status=None):
        w = self._w
        me = self._wr()
        w._yield(me, lambda: bool(self._candidates(me, source, tag)), f"recv(source={source}, tag={tag})")
        cands = self._candidates(me, source, tag)
        if len(cands) > 1:
            w.stats["wildcard_multi"] += 1
        k = w.choose(len(cands), "wildcard-match")
        msg = cands[k]
        if any(o.seq < msg.seq for o in cands if o is not msg):
            w.stats["overtakes"] += 1
        msg.matched = True
        w.stats["recvs"] += 1
        w.trace.append(("recv", me, msg.src, msg.tag, len(cands)))
        return msg.payload

    # ---- collectives
    def _collective(self, kind):
        w = self._w
        me = self._wr()
        pos = w.coll_pos.get((self._id, me), 0)
        w.coll_pos[(self._id, me)] = pos + 1
        slot = w.coll.setdefault((self._id, pos), {"kind": kind, "arrived": {}, "data": {}})
        if slot["kind"] != kind:
            raise SimulationError(f"mismatched collectives on communicator {self._id}: rank {me} calls {kind} while others called {slot['kind']}")
        w.stats["collectives"] += 1
        return w, me, slot

    def Barrier(self):
        w, me, slot = self._collective("Barrier")
        slot["arrived"][me] = True
        w._yield(me, lambda: len(slot["arrived"]) == len(self._members), "Barrier")

    def barrier(self):
        return self.Barrier()

    def bcast(self, obj=None, root=0):
        w, me, slot = self._collective("bcast")
        rootw = self._members[root]
        slot["arrived"][me] = True
        if me == rootw:
            slot["data"]["value"] = pickle.dumps(obj, protocol=pickle.HIGHEST_PROTOCOL)
            if w.choose(2, "bcast-root-early") == 0:
                w._yield(me)
            else:
                w._yield(me, lambda: len(slot["arrived"]) == len(self._members), "bcast[root waits]")
            return obj
        w._yield(me, lambda: "value" in slot["data"], f"bcast(root={root})")
        return pickle.loads(slot["data"]["value"])

    def Bcast(self, buf, root=0):
        import numpy as np

        w, me, slot = self._collective("Bcast")
        rootw = self._members[root]
        slot["arrived"][me] = True
        if me == rootw:
            slot["data"]["value"] = np.array(buf, copy=True)
            w._yield(me)
            return
        w._yield(me, lambda: "value" in slot["data"], f"Bcast(root={root})")
        src = slot["data"]["value"]
        if src.shape != buf.shape or src.dtype != buf.dtype:
            raise SimulationError(f"Bcast buffer mismatch on rank {me}: {buf.shape}/{buf.dtype} vs {src.shape}/{src.dtype}")
        buf[...] = src

    def gather(self, obj, root=0):
        w, me, slot = self._collective("gather")
        rootw = self._members[root]
        slot["arrived"][me] = True
        slot["data"][me] = pickle.dumps(obj, protocol=pickle.HIGHEST_PROTOCOL)
        if me == rootw:
            w._yield(me, lambda: len(slot["arrived"]) == len(self._members), f"gather(root={root})")
            return [pickle.loads(slot["data"][m]) for m in self._members]
        w._yield(me)
        return None

    def Split(self, color=0, key=0):
        w, me, slot = self._collective("Split")
        slot["arrived"][me] = True
        slot["data"][me] = (color, key)
        w._yield(me, lambda: len(slot["arrived"]) == len(self._members), "Split")
        if "comms" not in slot:
            groups = {}
            for m in self._members:
                c, k = slot["data"][m]
                if c != UNDEFINED:
                    groups.setdefault(c, []).append((k, m))
            slot["comms"] = {c: Comm(w, [m for _, m in sorted(v)], w._new_comm_id()) for c, v in groups.items()}
        if color == UNDEFINED:
            return COMM_NULL
        return slot["comms"][color]

    def Free(self):
        return None

    def Abort(self, errorcode=0):
        raise SimulationError(f"MPI_Abort({errorcode})")


class _WorldProxy:
    """module-level COMM_WORLD: forwards to the active simulation.  Outside of a
    simulation (import time) it reports the size announced by the harness."""

    def __getattr__(self, name):
        if name.startswith("__"):
            raise AttributeError(name)
        return getattr(_world().world_comm, name)

    def __reduce__(self):
        return (_get_world_proxy, ())

    def Get_size(self):
        if _WORLD is None:
            return _IMPORT_SIZE
        return _WORLD.world_comm.Get_size()

    def Get_rank(self):
        if _WORLD is None:
            return 0
        try:
            return _WORLD.world_comm.Get_rank()
        except SimulationError:
            return 0  # harness thread (e.g. logging at import time)


_IMPORT_SIZE = 2
COMM_WORLD = _WorldProxy()
Comm.__module__ = __name__
