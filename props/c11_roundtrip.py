"""
C11 — every persisted product reads back equal to what was written.
"""

from __future__ import annotations

import math

import numpy as np
from hypothesis import strategies as st

from vlib import gen, sources
from vlib import pipeline as pl
from pathlib import Path as Path_

from vlib.runner import Checker, Component, Result, Scratch, exc_sig

PROPERTY = "C11"
LEVEL = "exploration"
RULE = (
    "Round trips of generated objects: CorrFunc through HDF5 for all 7 member subsets, auto/cross, sparse and all-zero counts; Configuration "
    "through YAML (to_file/from_file and to_dict/from_dict) over methods x closed x units x scalar/list scales x rweight/resolution x named "
    "cosmologies x custom edges; CorrData/RedshiftData/HistData through .dat/.smp/.cov with 1..8 bins, NaN/+-inf, magnitudes 1e-12..1e9; patch "
    "Metadata through YAML; catalogs through their cache directory. Oracle: from_file(to_file(x)) == x by the library's == AND by an independent "
    "member-by-member comparison, identical downstream values; text files to the precision of the fixed-width format (independent model of "
    "the number of decimals kept). Non-trivial: container with >=1 optional member absent and >=1 present or a zero patch pair; configuration "
    "with >=2 non-default parameters; text data with a non-finite value or exactly one bin."
    ' Extensions: auto containers with distinct weight arrays; 127-300 patches (expanded from a drawn seed).'
)
ASSUMPTIONS = [
    "text format keeps max(0, 10 - len(sign+integer part) - 1) decimals by truncation; tolerance 10^-decimals + 1e-10",
    "custom (non-astropy) cosmologies cannot be serialised (documented: raises ConfigError) and are not judged",
]


# --------------------------------------------------------------------------
# CorrFunc <-> HDF5
# --------------------------------------------------------------------------
@st.composite
def cf_case(draw):
    c = draw(gen.corrfunc_case(max_bins=4, min_patches=1, max_patches=5))
    if draw(st.sampled_from([False, False, False, True])):
        kind = draw(st.sampled_from(["dd"] + c["present"]))
        c[kind]["counts"] = (np.array(c[kind]["counts"]) * 0).tolist()
    if draw(st.sampled_from([False, False, True])):
        # signed contents (negative object weights give negative pair counts): flip the sign of whole
        # patch pairs and of single entries, so that pairs without any positive entry occur
        kind = draw(st.sampled_from(["dd"] + c["present"]))
        arr = np.array(c[kind]["counts"], float)
        npatch = arr.shape[1]
        pair_sign = np.array(draw(st.lists(st.sampled_from([1.0, 1.0, -1.0]), min_size=npatch * npatch, max_size=npatch * npatch))).reshape(npatch, npatch)
        arr = arr * pair_sign[None, :, :]
        c[kind]["counts"] = arr.tolist()
        c["signed"] = True
    if c["auto"] and draw(st.sampled_from([False, False, True])):
        # the container stores two weight arrays also when flagged as an autocorrelation; they are
        # independent members and must come back as written
        kind = draw(st.sampled_from([k for k in ["dd"] + c["present"] if c[k]["auto"]] or ["dd"]))
        w2 = np.array(c[kind]["w2"], float)
        c[kind]["w2"] = (w2 * np.array(draw(st.lists(st.sampled_from([1.0, 2.0, 0.5, 3.0]), min_size=w2.size, max_size=w2.size))).reshape(w2.shape)).tolist()
        c["auto_distinct_weights"] = True
    if draw(st.integers(0, 29)) == 0:
        # hundreds of patches (compact form, see gen.expand_counts)
        P = draw(st.sampled_from([300, 257, 256, 255, 129, 128, 127]))
        c["npatch"] = P
        for kind in ["dd"] + c["present"]:
            c[kind] = {"binning": c["binning"], "npatch": P, "auto": c[kind]["auto"], "expand": draw(st.integers(0, 2**32 - 1))}
    return c


def nc_arrays(nc):
    return {
        "counts": np.asarray(nc.counts.counts),
        "w1": np.asarray(nc.sum_weights.sum_weights1),
        "w2": np.asarray(nc.sum_weights.sum_weights2),
        "edges": np.asarray(nc.binning.edges),
        "closed": str(nc.binning.closed),
        "auto": (bool(nc.counts.auto), bool(nc.sum_weights.auto)),
    }


def same_nc(a, b):
    return all(np.array_equal(a[k], b[k]) if isinstance(a[k], np.ndarray) else a[k] == b[k] for k in a)


def run_cf(case):
    from yaw import CorrFunc

    present = case["present"]
    case = dict(case, **{k: gen.expand_counts(case[k]) for k in ["dd"] + present})
    zero_pairs = any((np.array(case[k]["counts"]).sum(axis=0) == 0).any() for k in ["dd"] + present)
    ck = Checker(len(present) < 3 or zero_pairs, classes=["members:" + "+".join(present), "auto" if case["auto"] else "cross"] + (["signed-counts"] if case.get("signed") else []) + (["patches>=127"] if case["npatch"] >= 127 else []))
    cf = gen.build_corrfunc(case)
    with Scratch() as tmp:
        path = tmp / "cf.hdf5"
        ok, _ = ck.call(lambda: cf.to_file(path), "CorrFunc.to_file")
        if not ok:
            return ck.results()
        ok, back = ck.call(lambda: CorrFunc.from_file(path), "CorrFunc.from_file")
        if not ok:
            return ck.results()
    for kind in ("dd", "dr", "rd", "rr"):
        a, b = getattr(cf, kind), getattr(back, kind)
        if (a is None) != (b is None):
            got = [k for k in ("dd", "dr", "rd", "rr") if getattr(back, k) is not None]
            ck.fail("hdf5:members-differ", f"wrote {['dd'] + present}, read {got}")
            break
        if a is not None and not same_nc(nc_arrays(a), nc_arrays(b)):
            ck.fail(f"hdf5:{kind}:values-differ", "")
    ok, v = ck.call(lambda: back == cf, "CorrFunc.__eq__")
    if ok:
        ck.expect(v is True, "hdf5:read-back-not-equal(==)", repr(v))
    if not ("rr" in present and "dr" not in present):
        with np.errstate(all="ignore"):
            ok1, s0 = ck.call(cf.sample, "sample")
            ok2, s1 = ck.call(back.sample, "sample(read-back)")
        if ok1 and ok2:
            ck.expect(np.array_equal(s0.data, s1.data, equal_nan=True) and np.array_equal(s0.samples, s1.samples, equal_nan=True), "hdf5:downstream-differs")
    return ck.results()


# --------------------------------------------------------------------------
# Configuration <-> YAML
# --------------------------------------------------------------------------
@st.composite
def cfg_case(draw):
    from props.c15_config import params_strategy

    p = draw(params_strategy())
    if p["cosmology"] in ("custom", "curved"):  # only named astropy cosmologies can be serialised (documented)
        p["cosmology"] = draw(st.sampled_from(["Planck18", "WMAP7", "Planck13"]))
    return p


def run_cfg(p):
    from props.c15_config import create_kwargs, fields
    from yaw import Configuration

    nondefault = sum([p["unit"] != "kpc", p["rweight"] is not None, p["closed"] != "right", p["method"] != "linear", p["cosmology"] != "Planck15", len(p["rmin"]) > 1])
    ck = Checker(nondefault >= 2, classes=[f"method:{p['method']}", f"unit:{p['unit']}", f"cosmology:{p['cosmology']}", f"closed:{p['closed']}"])
    ok, cfg = ck.call(lambda: Configuration.create(**create_kwargs(p)), "create")
    if not ok:
        return ck.results()
    f0 = fields(cfg)
    with Scratch() as tmp:
        path = tmp / "config.yml"
        ok, _ = ck.call(lambda: cfg.to_file(path), f"Configuration.to_file:{p['method']}")
        if ok:
            ok, back = ck.call(lambda: Configuration.from_file(path), f"Configuration.from_file:{p['method']}")
            if ok:
                f1 = fields(back)
                if f1 != f0:
                    diff = [k for k in f0 if f0[k] != f1[k]]
                    ck.fail(f"yaml:fields-differ:{'+'.join(diff)}:{p['method']}", f"{[(k, f0[k], f1[k]) for k in diff]}")
                ok, v = ck.call(lambda: back == cfg, "Configuration.__eq__")
                if ok:
                    ck.expect(v is True, "yaml:read-back-not-equal(==)")
    ok, d = ck.call(cfg.to_dict, "to_dict")
    if ok:
        ok, back = ck.call(lambda: Configuration.from_dict(d), f"Configuration.from_dict:{p['method']}")
        if ok:
            f1 = fields(back)
            if f1 != f0:
                diff = [k for k in f0 if f0[k] != f1[k]]
                ck.fail(f"dict:fields-differ:{'+'.join(diff)}:{p['method']}", f"{[(k, f0[k], f1[k]) for k in diff]}")
        ck.expect(fields(cfg) == f0, "to_dict:mutates")
    return ck.results()


# --------------------------------------------------------------------------
# CorrData / RedshiftData / HistData <-> text files
# --------------------------------------------------------------------------
def magnitude_value():
    mant = gen.floats(1.0, 9.999)
    expo = st.integers(-12, 9)
    sign = st.sampled_from([1.0, 1.0, -1.0])
    return st.tuples(mant, expo, sign).map(lambda t: t[2] * t[0] * 10.0 ** t[1])


text_value = st.one_of(magnitude_value(), magnitude_value(), st.just(0.0), st.sampled_from([float("nan"), float("inf"), float("-inf")]), st.integers(-1000, 1000).map(float))


@st.composite
def text_case(draw):
    n = draw(st.integers(1, 8))
    start = draw(gen.floats(0.0, 3.0))
    gaps = draw(st.lists(gen.floats(1e-4, 1.0), min_size=n, max_size=n))
    edges = [start]
    for g in gaps:
        edges.append(edges[-1] + g)
    binning = {"edges": edges, "closed": draw(gen.closed_strategy)}
    c = draw(gen.sampled_case(binning=binning, elem=text_value, min_samples=1, max_samples=draw(st.sampled_from([6, 6, 14]))))
    c["cls"] = draw(st.sampled_from(["CorrData", "RedshiftData", "HistData"]))
    c["prefix"] = draw(st.sampled_from(["product", "product", "nz_z0.2-1.4", "result.v2", "a.b.c"]))
    # an earlier product written to and read from the same prefix by the same process (a re-run
    # of an analysis with other settings): the later round trip must not see anything of it
    c["earlier"] = draw(st.sampled_from([None, None, "other-closed-side", "scaled-values"]))
    return c


def decimals_kept(x, width=10):
    """independent model of the fixed-width float format"""
    if not math.isfinite(x):
        return None
    s = f"{x: .{width}f}"
    int_part = s.split(".")[0]  # includes sign/space
    return max(0, width - len(int_part) - 1)


def text_close(written, read):
    written = np.asarray(written, float)
    read = np.asarray(read, float)
    if written.shape != read.shape:
        return False, f"shape {written.shape} vs {read.shape}"
    for w, r in zip(written.ravel(), read.ravel()):
        if math.isnan(w):
            if not math.isnan(r):
                return False, f"nan -> {r}"
        elif math.isinf(w):
            if r != w:
                return False, f"{w} -> {r}"
        else:
            d = decimals_kept(w)
            if not (abs(r - w) <= 10.0 ** (-d) + 1e-10 * max(1.0, abs(w))):
                return False, f"{w!r} -> {r!r} (decimals kept: {d})"
    return True, ""


def run_text(case):
    import yaw

    cls = getattr(yaw, case["cls"])
    data = np.array(case["data"], float)
    nb = len(data)
    ck = Checker(nb == 1 or not np.all(np.isfinite(data)), classes=[f"cls:{case['cls']}", f"bins:{nb}", "nonfinite" if not np.all(np.isfinite(data)) else "finite", f"closed:{case['binning']['closed']}"])
    obj = gen.build_sampled(case, cls)
    with Scratch() as tmp:
        prefix = tmp / case.get("prefix", "product")
        if case.get("earlier"):
            old = dict(case)
            if case["earlier"] == "other-closed-side":
                old["binning"] = dict(case["binning"], closed="left" if case["binning"]["closed"] == "right" else "right")
            else:
                old["data"] = (np.array(case["data"], float) * 3.0 + 1.0).tolist()
                old["samples"] = (np.array(case["samples"], float) * 3.0 + 1.0).tolist()
            with np.errstate(all="ignore"):
                ok, _ = ck.call(lambda: (gen.build_sampled(old, cls).to_files(prefix), cls.from_files(prefix)), "earlier-product")
            if not ok:
                return ck.results()
            ck.cls(f"earlier-product-at-same-prefix:{case['earlier']}")
        with np.errstate(all="ignore"):
            ok, _ = ck.call(lambda: obj.to_files(prefix), f"to_files:bins={'1' if nb == 1 else 'n'}")
        if not ok:
            return ck.results()
        written = sorted(p.name for p in tmp.iterdir())
        ck.expect(len(written) == 3 and {Path_(w).suffix for w in written} == {".dat", ".smp", ".cov"}, "to_files:unexpected-set-of-files", str(written))
        ok, back = ck.call(lambda: cls.from_files(prefix), f"from_files:bins={'1' if nb == 1 else 'n'}")
        if not ok:
            return ck.results()
    ck.expect(type(back) is cls, "text:type")
    good, why = text_close(case["data"], back.data)
    ck.expect(good, "text:data", why)
    good, why = text_close(case["samples"], back.samples)
    ck.expect(good, "text:samples", why)
    good, why = text_close(case["binning"]["edges"], back.binning.edges)
    ck.expect(good, "text:edges", why)
    ck.expect(str(back.binning.closed) == case["binning"]["closed"], "text:closed-side", f"{back.binning.closed} vs {case['binning']['closed']}")
    ck.expect(back.samples.shape == np.array(case["samples"]).shape, "text:samples-shape", f"{back.samples.shape}")
    return ck.results()


# --------------------------------------------------------------------------
# patch metadata <-> YAML, catalogs <-> cache directory
# --------------------------------------------------------------------------
@st.composite
def meta_case(draw):
    return {
        "num_records": draw(st.integers(0, 10**9)),
        "sum_weights": draw(st.one_of(gen.floats(0.0, 1e12), st.integers(0, 10**6).map(float))),
        "center": [draw(gen.floats(0.0, 6.283185307179586)), draw(gen.floats(-1.5707963267948966, 1.5707963267948966))],
        "radius": draw(st.one_of(gen.floats(0.0, 3.141592653589793), st.just(0.0))),
    }


def run_meta(case):
    from yaw import AngularCoordinates, AngularDistances
    from yaw.catalog.patch import Metadata

    ck = Checker(True)
    m = Metadata(num_records=case["num_records"], sum_weights=case["sum_weights"], center=AngularCoordinates(case["center"]), radius=AngularDistances(case["radius"]))
    with Scratch() as tmp:
        ok, _ = ck.call(lambda: m.to_file(tmp / "meta.yml"), "Metadata.to_file")
        if ok:
            ok, b = ck.call(lambda: Metadata.from_file(tmp / "meta.yml"), "Metadata.from_file")
            if ok:
                ck.expect(int(b.num_records) == case["num_records"] and type(b.num_records) is int, "meta:num_records")
                ck.expect(float(b.sum_weights) == case["sum_weights"], "meta:sum_weights", f"{b.sum_weights!r} vs {case['sum_weights']!r}")
                ck.expect(np.array_equal(np.asarray(b.center.data), np.array([case["center"]])), "meta:center", f"{np.asarray(b.center.data).tolist()} vs {case['center']}")
                ck.expect(np.array_equal(np.asarray(b.radius.data), np.array([case["radius"]])), "meta:radius")
    return ck.results()


@st.composite
def catalog_case(draw):
    edges = [0.1, 0.5, 1.0]
    scene = draw(gen.scene_case(draw(gen.loguniform(1e-3, 0.1)), edges, 1, max_patches=4, max_per_patch=6))
    return {"scene": scene, "trees": draw(st.booleans())}


def run_catalog(case):
    from yaw import Catalog

    cat = case["scene"]["cats"][0]
    ck = Checker(len(case["scene"]["centers"]) >= 2)
    with Scratch() as tmp:
        try:
            c1 = pl.make_catalog(tmp / "c", cat, case["scene"]["centers"])
            if case["trees"]:
                c1.build_trees(None, max_workers=1)
            c2 = Catalog(tmp / "c", max_workers=1)
        except Exception as e:  # noqa
            ck.fail(f"catalog|{exc_sig(e)}", f"{type(e).__name__}: {e}")
            return ck.results()
        s1, s2 = sources.stored_records(c1), sources.stored_records(c2)
        ck.expect(sorted(s1) == sorted(s2) and all(np.array_equal(s1[k], s2[k]) for k in s1), "catalog:records-differ")
        ck.expect(np.array_equal(c1.get_centers().data, c2.get_centers().data) and np.array_equal(c1.get_radii().data, c2.get_radii().data), "catalog:centres-radii-differ")
        ck.expect(c1.get_num_records() == c2.get_num_records() and c1.get_sum_weights() == c2.get_sum_weights(), "catalog:meta-differ")
        ck.expect(c1.has_weights == c2.has_weights and c1.has_redshifts == c2.has_redshifts, "catalog:attributes-differ")
    return ck.results()


def components():
    return [
        Component("corrfunc_hdf5", cf_case(), run_cf, quick=600, thorough=20_000),
        Component("config_yaml", cfg_case(), run_cfg, quick=1000, thorough=30_000),
        Component("text_files", text_case(), run_text, quick=1500, thorough=50_000),
        Component("metadata_yaml", meta_case(), run_meta, quick=500, thorough=10_000),
        Component("catalog_cache", catalog_case(), run_catalog, quick=200, thorough=5_000),
    ]
