"""
C03 end-to-end components: the statistic is *really recomputed* with patch k's
records removed from all catalogs involved.
"""

from __future__ import annotations

import numpy as np
from hypothesis import strategies as st

from vlib import gen
from vlib import pipeline as pl
from vlib.runner import Checker, Component, Result, Scratch, exc_sig


@st.composite
def corr_case(draw):
    cfg, theta_max = draw(gen.config_case(max_bins=3, max_scales=1, allow_rweight=False, units=["rad", "deg", "kpc", "Mpc/h"]))
    edges = gen.binning_edges_reference(cfg, cfg["cosmology"])
    mode = draw(st.sampled_from(["cross", "auto"]))
    if mode == "cross":
        scene = draw(gen.scene_case(theta_max, edges, 3, need_z=(0,), min_patches=2, max_patches=5, max_per_patch=6))
    else:
        scene = draw(gen.scene_case(theta_max, edges, 2, need_z=(0, 1), min_patches=2, max_patches=5, max_per_patch=6))
    return {"mode": mode, "cfg": cfg, "scene": scene, "count_rr": draw(st.booleans())}


def _measure(case, cats, centers, tmp, tag):
    import yaw

    cfg = pl.make_config(case["cfg"])
    objs = [pl.make_catalog(tmp / f"{tag}{i}", c, centers) for i, c in enumerate(cats)]
    if case["mode"] == "cross":
        cf = yaw.crosscorrelate(cfg, objs[0], objs[1], unk_rand=objs[2], max_workers=1)[0]
    else:
        cf = yaw.autocorrelate(cfg, objs[0], objs[1], count_rr=case["count_rr"], max_workers=1)[0]
    return cf


def _without(cat, keep):
    out = {}
    for k, v in cat.items():
        out[k] = None if v is None else [x for x, m in zip(v, keep) if m]
    return out


def run_corr(case):
    centers = np.array(case["scene"]["centers"], float)
    P = len(centers)
    if P < 2:
        return Result.discard("single-patch")
    cxyz = pl.to_xyz(centers[:, 0], centers[:, 1])
    cats = case["scene"]["cats"]
    samples = [pl.Sample(c, cxyz) for c in cats]
    if min(s.margin.min() for s in samples) < 1e-12:
        return Result.discard("equidistant-object")
    ck = Checker(classes=[f"mode:{case['mode']}", f"patches:{P}"])
    with Scratch() as tmp:
        try:
            cf = _measure(case, cats, centers, tmp, "full")
            with np.errstate(all="ignore"):
                full = cf.sample()
        except Exception as e:  # noqa
            ck.fail(f"measure|{exc_sig(e)}", f"{type(e).__name__}: {e}")
            return ck.results()
        ck.expect(full.samples.shape[0] == P, "num-samples", f"{full.samples.shape}")
        dd = np.asarray(cf.dd.counts.get_array()).sum(axis=0)
        off = dd - np.diag(np.diag(dd))
        ck.nontrivial = bool(P >= 3 and (off.sum(axis=0) + off.sum(axis=1) > 0).any())
        # bins whose leave-one-out denominator is zero in exact arithmetic carry only rounding
        # residues (~1e-16, from differencing cumulative weighted counts and from the
        # subtract-from-total shortcut): the estimator is undefined there and not judged
        den_member = cf.rr if cf.rr is not None else (cf.rd if cf.rd is not None and cf.dr is None else cf.dr)
        with np.errstate(all="ignore"):
            den = den_member.sample_patch_sum()
        floor = 1e-9 * max(float(np.nanmax(np.abs(den.data))), float(np.nanmax(np.abs(den.samples))), 1e-300)
        judged_k = (np.abs(den.samples) > floor) & pl.normalisation_ok(cf)[1]
        recomputed = []
        for k in range(P):
            red_cats = [_without(c, s.patch != k) for c, s in zip(cats, samples)]
            red_centers = np.delete(centers, k, axis=0)
            try:
                cfk = _measure(case, red_cats, red_centers, tmp, f"loo{k}_")
                with np.errstate(all="ignore"):
                    recomputed.append(np.asarray(cfk.sample().data, float))
            except Exception as e:  # noqa
                ck.fail(f"measure-loo|{exc_sig(e)}", f"{type(e).__name__}: {e}")
                return ck.results()
        for k in range(min(P, full.samples.shape[0])):
            got = np.asarray(full.samples[k], float)
            exp = recomputed[k]
            fin = np.isfinite(exp) & np.isfinite(got) & judged_k[k]
            same_nonfinite = np.array_equal(np.isfinite(exp), np.isfinite(got))
            if not (np.allclose(got[fin], exp[fin], rtol=1e-9, atol=1e-12)):
                which = [j for j in range(P) if np.allclose(got[fin & judged_k[j]], recomputed[j][fin & judged_k[j]], rtol=1e-9, atol=1e-12)]
                ck.fail("e2e:corr-sample:" + ("permuted" if which else "wrong-value"), f"sample {k}: {got} vs recomputed {exp}; equals leave-out of {which}")
                break
            if not same_nonfinite:
                ck.cls("nonfinite-pattern-differs(not judged)")
    return ck.results()


@st.composite
def hist_case(draw):
    b = draw(gen.binning_params(max_bins=4))
    edges = gen.binning_edges_reference(b, "Planck15").tolist()
    # mostly few patches; sometimes hundreds (patch ids are int16: index arithmetic over
    # patches must not be done in a narrow integer type), around the widths where products
    # and sums of int8/uint8/int16 indices wrap
    K = draw(st.one_of(st.integers(2, 6), st.integers(2, 6), st.integers(2, 6), st.integers(2, 6), st.integers(2, 6), st.integers(2, 6), st.sampled_from([300, 257, 256, 255, 200, 183, 182, 181, 129, 128, 127])))
    n = draw(st.integers(K, K + 34))
    pid = list(range(K)) + draw(st.lists(st.integers(0, K - 1), min_size=n - K, max_size=n - K))
    z = draw(gen.redshift_values(n, edges))
    ra = draw(st.lists(gen.floats(0.1, 0.2), min_size=n, max_size=n))
    dec = draw(st.lists(gen.floats(-0.1, 0.1), min_size=n, max_size=n))
    w = draw(st.one_of(st.none(), st.lists(st.sampled_from([1.0, 2.0, 0.5, 0.25, 3.0]), min_size=n, max_size=n)))
    return {"binning": b, "cat": {"ra": ra, "dec": dec, "w": w, "z": z}, "pid": pid, "npatch": K, "workers": draw(st.sampled_from([1, 1, 3])), "tape": draw(st.lists(st.integers(0, 5), max_size=8))}


def run_hist(case):
    from vlib import schedpool
    from yaw.redshifts import HistData

    b = case["binning"]
    cfgd = dict(b, rmin=[0.001], rmax=[0.01], unit="rad", cosmology="Planck15", rweight=None, resolution=None)
    K = case["npatch"]
    cat = case["cat"]
    z = np.array(cat["z"], float)
    w = np.ones(len(z)) if cat["w"] is None else np.array(cat["w"], float)
    pid = np.array(case["pid"])
    ck = Checker(classes=[f"patches:{K if K < 100 else '>=127'}", f"workers:{case['workers']}"])
    with Scratch() as tmp:
        try:
            cfg = pl.make_config(cfgd)
            edges = np.asarray(cfg.binning.edges, float)
            catalog = pl.make_catalog(tmp / "c", cat, patch_ids=pid)
            if case["workers"] > 1:
                with schedpool.Patched(case["tape"]) as fake:
                    hist = HistData.from_catalog(catalog, cfg, max_workers=case["workers"])
                if fake.tape.nontrivial:
                    ck.cls("schedule:non-identity")
            else:
                hist = HistData.from_catalog(catalog, cfg, max_workers=1)
        except Exception as e:  # noqa
            ck.fail(f"hist|{exc_sig(e)}", f"{type(e).__name__}: {e}")
            return ck.results()
        member = pl.bin_membership(z, edges, str(cfg.binning.closed))
        nb = len(edges) - 1

        def histogram(mask):
            out = np.zeros(nb)
            for i in np.nonzero(mask & (member >= 0))[0]:
                out[member[i]] += w[i]
            return out

        per_patch = np.array([histogram(pid == k) for k in range(K)])
        ck.nontrivial = K >= 3 and len({tuple(r) for r in per_patch.tolist()}) >= min(K, 8)
        ck.expect(np.allclose(hist.data, histogram(np.ones(len(z), bool)), rtol=1e-12, atol=0), "hist:data")
        ck.expect(hist.samples.shape == (K, nb), "hist:samples-shape", str(hist.samples.shape))
        if hist.samples.shape == (K, nb):
            refs = [histogram(pid != k) for k in range(K)]
            for k in range(K):
                if not np.allclose(hist.samples[k], refs[k], rtol=1e-12, atol=1e-12):
                    which = [j for j in range(K) if np.allclose(hist.samples[k], refs[j], rtol=1e-12, atol=1e-12)]
                    ck.fail("e2e:hist-sample:" + ("permuted" if which else "wrong-value"), f"sample {k}: {hist.samples[k]} vs {refs[k]}; equals leave-out of {which}")
                    break
    return ck.results()


def components():
    return [
        Component("e2e_corr", corr_case(), run_corr, quick=160, thorough=4000),
        Component("e2e_hist", hist_case(), run_hist, quick=400, thorough=15000),
    ]
