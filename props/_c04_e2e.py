"""
C04 end-to-end component: brute-force pair totals of generated catalogs feed the
documented estimator / n(z) formulas and must equal what the public pipeline
(`crosscorrelate`/`autocorrelate` -> `sample()` -> `RedshiftData`) returns.
"""

from __future__ import annotations

import numpy as np
from hypothesis import strategies as st

from props import c01_paircounts as c01
from vlib import gen
from vlib import pipeline as pl
from vlib.runner import Checker, Component, Result, Scratch, exc_sig


@st.composite
def case_strategy(draw):
    case = draw(c01.case_strategy())
    case["cfg"]["rweight"] = None
    case["cfg"]["resolution"] = None
    return case


def run_case(case):
    from yaw import RedshiftData

    ck = Checker(classes=[f"mode:{case['mode']}"])
    cen = np.array(case["scene"]["centers"], float)
    cxyz = pl.to_xyz(cen[:, 0], cen[:, 1])
    K = len(cxyz)
    samples = pl.scene_samples(case["scene"])
    if samples is None:
        return Result.discard("derived-centres-leave-a-patch-empty")
    if min(s.margin.min() for s in samples) < 1e-12:
        return Result.discard("equidistant-object")
    with Scratch() as tmp:
        try:
            cfg, cfs, _ = c01.measure(case, tmp)
        except Exception as e:  # noqa
            ck.fail(f"measure|{exc_sig(e)}", f"{type(e).__name__}: {e}")
            return ck.results()
        edges = np.asarray(cfg.binning.edges, float)
        closed = str(cfg.binning.closed)
        amin, amax = c01.angles_for(case, edges)
        prods = c01.products(case)
        terms = {}
        ambiguous = False
        for name, i1, i2, auto, binned2 in prods:
            exp, amb, sw1, sw2 = pl.expected_counts(samples[i1], samples[i2], auto=auto, binned2=binned2, edges=edges, closed=closed, ang_min=amin, ang_max=amax, npatch=K)
            ambiguous |= bool(amb.any())
            T = exp.sum(axis=(2, 3))  # (scales, bins)
            W1, W2 = sw1.sum(axis=1), sw2.sum(axis=1)
            with np.errstate(all="ignore"):
                terms[name] = T / (0.5 * W1 * W1) if auto else T / (W1 * W2)
        if ambiguous:
            return Result.discard("pair-near-scale-edge")
        for s, cf in enumerate(cfs):
            t = {k: v[s] for k, v in terms.items()}
            finite = np.all([np.isfinite(v) for v in t.values()], axis=0)
            with np.errstate(all="ignore"):
                if "rr" in t:
                    if "dr" not in t:
                        continue
                    rd = t.get("rd", t["dr"])
                    outs = [(t["dd"] - t["dr"] - rd + t["rr"]) / t["rr"]]
                    judged = finite & (t["rr"] != 0)
                    den = np.abs(t["rr"])
                else:
                    outs = [t["dd"] / t[k] - 1.0 for k in ("dr", "rd") if k in t]
                    judged = finite & np.all([t[k] != 0 for k in ("dr", "rd") if k in t], axis=0)
                    den = np.min([np.abs(t[k]) for k in ("dr", "rd") if k in t], axis=0)
                scale = sum(np.abs(np.nan_to_num(v, nan=0, posinf=0, neginf=0)) for v in t.values())
                atol = np.where(judged, 1e-9 * scale / den, 0.0)
                got = cf.sample()
            ck.nontrivial |= bool(judged.any() and all(np.any(v[judged] != 0) for v in t.values()))
            good = any(np.all((np.abs(got.data - o) <= atol + 1e-9 * np.abs(o)) | ~judged) for o in outs)
            ck.expect(good, f"e2e:estimator:{case['mode']}:{'+'.join(sorted(t))}", lambda: f"scale {s}: pipeline {got.data} vs formula on brute-force totals {outs}")
            if case["mode"] == "cross" and good:
                with np.errstate(all="ignore"):
                    nz = RedshiftData.from_corrfuncs(cf)
                    ref = [o / np.sqrt(np.diff(edges) ** 2) for o in outs]
                ck.expect(any(np.all((np.abs(nz.data - r) <= (atol + 1e-9 * np.abs(o)) / np.diff(edges)) | ~judged) for r, o in zip(ref, outs)), "e2e:nz-formula", lambda: f"{nz.data} vs {ref}")
    return ck.results()


def components():
    return [Component("e2e_pipeline", case_strategy(), run_case, quick=300, thorough=8000)]
