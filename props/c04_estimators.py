"""
C04 — correlation estimators and the n(z) formula are applied as documented.

Oracle: from the generated arrays directly: total counts T = sum(counts), total
weights W1, W2; normalised term T/(W1*W2) (cross) or T/(W^2/2) (auto);
Landy-Szalay / Davis-Peebles; n(z) = w_sp / sqrt(dz^2 w_ss w_pp); integral of
normalised() over the binning == 1.
"""

from __future__ import annotations

import numpy as np
from hypothesis import strategies as st

from vlib import gen
from vlib.runner import Checker, Component, Result

PROPERTY = "C04"
LEVEL = "exploration"
RULE = (
    "Hypothesis builds CorrFunc objects with dd and every non-empty subset of dr/rd/rr (auto measurements as produced by "
    "autocorrelate: dd/rr auto, dr cross; cross measurements all cross), CorrData triples for every subset of the two "
    "autocorrelations with unequal bin widths, and histogram/estimate data with NaN and negative entries; oracle = the documented "
    "formulas evaluated on totals of the generated arrays. End-to-end component: brute-force pair totals of generated catalogs feed the "
    "same formulas. Non-trivial: every present term non-zero in >=1 bin and the normalised terms pairwise different in that bin "
    "(so that swapping terms changes the answer); distinct = case digest."
    ' Extensions: CorrFunc objects also as restored from HDF5, unpickled, fully sliced or deep-copied before sampling; end-to-end cases include library-derived centres.'
)
ASSUMPTIONS = [
    "Landy-Szalay with rr but without dr is not defined by the statement: not judged (class ls_without_dr)",
    "bins where a term is non-finite or a denominator is zero are not judged (IEEE forms of algebraically equal expressions differ)",
    "normalised(): cases with |sum dz*data| < 1e-9 * sum |dz*data| are degenerate and not judged",
]


@st.composite
def cf_case(draw):
    binning = draw(gen.binning_case(max_bins=4))
    npatch = draw(st.integers(1, 6))
    auto = draw(st.booleans())
    present = list(draw(st.sampled_from(gen.SUBSETS)))
    if auto:
        present = [p for p in present if p != "rd"] or ["dr"]
    exact = draw(st.booleans())
    out = {"binning": binning, "npatch": npatch, "auto": auto, "present": present, "exact": exact, "prior": draw(st.sampled_from([None, None, "get_array", "sample"])), "via": draw(st.sampled_from(gen.PROVENANCE))}
    for kind in ["dd"] + present:
        member_auto = auto and kind in ("dd", "rr")
        out[kind] = draw(gen.normalised_counts_case(binning=binning, npatch=npatch, auto=member_auto, exact=exact, positive_weights=draw(st.booleans())))
    f = draw(st.sampled_from(gen.WEIGHT_SCALES))
    for kind in ["dd"] + present:
        gen.scale_weights(out[kind], f)
    if draw(st.integers(0, 7)) == 7:
        # object counts of large unweighted samples, handed over as integer arrays
        dt = draw(st.sampled_from(["i4", "i8", "u4", "f4"]))
        nb = len(binning["edges"]) - 1
        for kind in ["dd"] + present:
            w1 = np.array(draw(st.lists(st.integers(30_000, 120_000), min_size=nb * npatch, max_size=nb * npatch))).reshape(nb, npatch)
            w2 = w1 if out[kind]["auto"] else np.array(draw(st.lists(st.integers(30_000, 120_000), min_size=nb * npatch, max_size=nb * npatch))).reshape(nb, npatch)
            out[kind].update(w1=w1.tolist(), w2=w2.tolist(), w_dtype=dt)
        out["int_weights"] = dt
    return out


def term(nc):
    counts = np.array(nc["counts"], float)
    w1 = np.array(nc["w1"], float)
    w2 = np.array(nc["w2"], float)
    T = counts.reshape(counts.shape[0], -1).sum(axis=1)
    W1, W2 = w1.sum(axis=1), w2.sum(axis=1)
    with np.errstate(all="ignore"):
        return T / (0.5 * W1 * W1) if nc["auto"] else T / (W1 * W2)


def reference(c):
    terms = {k: term(c[k]) for k in ["dd"] + list(c["present"])}
    finite = np.all([np.isfinite(t) for t in terms.values()], axis=0)
    dd = terms["dd"]
    with np.errstate(all="ignore"):
        if "rr" in terms:
            if "dr" not in terms:
                return "LS-without-dr", [], finite, terms
            dr = terms["dr"]
            rd = terms.get("rd", dr)
            rr = terms["rr"]
            outs = [(dd - dr - rd + rr) / rr]
            judged = finite & (rr != 0)
            name = "LS"
        else:
            outs, judged = [], finite.copy()
            for k in ("dr", "rd"):
                if k in terms:
                    outs.append(dd / terms[k] - 1.0)
                    judged &= terms[k] != 0
            name = "DP"
    return name, outs, judged, terms


def run_cf(case):
    c = case
    name, outs, judged, terms = reference(c)
    vals = [t[judged] for t in terms.values()]
    distinct = bool(judged.any()) and all(np.all(v != 0) for v in vals) and len({tuple(np.round(v, 12)) for v in vals}) == len(vals)
    ck = Checker(distinct, classes=[f"estimator:{name}", "members:" + "+".join(c["present"]), "auto" if c["auto"] else "cross", "exact" if c["exact"] else "float"] + ([f"weights-dtype:{c['int_weights']}"] if c.get("int_weights") else []))
    cf = gen.build_corrfunc(c)
    if name == "LS-without-dr":
        ck.cls("ls_without_dr(not judged)")
        return ck.results()
    if c.get("via"):
        ok, cf = ck.call(gen.via, f"via:{c['via']}", cf, c["via"])
        if not ok:
            return ck.results()
        ck.cls(f"via:{c['via']}")
    with np.errstate(all="ignore"):
        if c.get("prior") == "get_array":
            for member in cf.to_dict().values():
                ck.call(member.get_array, "NormalisedCounts.get_array")
            ck.cls("prior:get_array")
        elif c.get("prior") == "sample":
            ck.call(cf.sample, "CorrFunc.sample")
            ck.cls("prior:sample")
        ok, s = ck.call(cf.sample, "CorrFunc.sample")
    if not ok:
        return ck.results()
    scale = sum(np.abs(np.nan_to_num(t, nan=0, posinf=0, neginf=0)) for t in terms.values())
    den = np.abs(terms["rr"]) if "rr" in terms else np.min([np.abs(terms[k]) for k in ("dr", "rd") if k in terms], axis=0)
    with np.errstate(all="ignore"):
        atol = np.where(judged, 1e-12 * scale / den, 0.0)
    good = any(np.all((np.abs(s.data - o) <= atol + 1e-12 * np.abs(o)) | ~judged) for o in outs)
    if not good:
        # diagnose which documented ingredient is off
        ck.fail(f"estimator:{name}:{'+'.join(c['present'])}:{'auto' if c['auto'] else 'cross'}", f"got {s.data}, expected one of {outs} (terms {terms})")
    # value and samples are computed identically: with a single patch ... n/a; check the all-patch
    # value against each term container too
    for k in ["dd"] + list(c["present"]):
        with np.errstate(all="ignore"):
            ok, t = ck.call(getattr(cf, k).sample_patch_sum, f"sample_patch_sum:{k}")
        if ok:
            ref = terms[k]
            fin = np.isfinite(ref)
            ck.expect(np.allclose(t.data[fin], ref[fin], rtol=1e-12, atol=0), f"term:{'auto' if c[k]['auto'] else 'cross'}:normalisation", lambda: f"{k}: {t.data} vs {ref}")
    return ck.results()


# --------------------------------------------------------------------------
pos_or_any = st.one_of(gen.floats(1e-3, 50.0), gen.floats(-5.0, -1e-3), st.just(0.0), st.just(float("nan")))


@st.composite
def nz_case(draw):
    binning = draw(gen.binning_case(max_bins=5))
    nsamp = draw(st.integers(1, 6))
    out = {"cross": draw(gen.sampled_case(binning=binning, nsamp=nsamp, elem=pos_or_any))}
    for key in ("ref", "unk"):
        out[key] = draw(gen.sampled_case(binning=binning, nsamp=nsamp, elem=pos_or_any)) if draw(st.booleans()) else None
    return out


def run_nz(case):
    from yaw import RedshiftData

    b = case["cross"]["binning"]
    dz = np.diff(np.array(b["edges"], float))
    objs = {k: (gen.build_sampled(case[k]) if case[k] else None) for k in ("cross", "ref", "unk")}
    ck = Checker(
        len(dz) >= 2 and len(set(np.round(dz, 12))) > 1 and (case["ref"] is not None or case["unk"] is not None),
        classes=[f"autocorr:{int(case['ref'] is not None)}{int(case['unk'] is not None)}"],
    )
    with np.errstate(all="ignore"):
        ok, nz = ck.call(lambda: RedshiftData.from_corrdata(objs["cross"], objs["ref"], objs["unk"]), "from_corrdata")
    if not ok:
        return ck.results()

    def formula(which):
        wsp = np.array(case["cross"][which], float)
        wss = np.array(case["ref"][which], float) if case["ref"] else 1.0
        wpp = np.array(case["unk"][which], float) if case["unk"] else 1.0
        with np.errstate(all="ignore"):
            return wsp / np.sqrt(dz * dz * wss * wpp)

    ck.expect(np.allclose(nz.data, formula("data"), rtol=1e-12, atol=0, equal_nan=True), "nz:data-formula", lambda: f"{nz.data} vs {formula('data')}")
    ck.expect(
        nz.samples.shape == np.array(case["cross"]["samples"]).shape and np.allclose(nz.samples, formula("samples"), rtol=1e-12, atol=0, equal_nan=True),
        "nz:samples-formula",
    )
    ck.expect(np.array_equal(nz.binning.edges, np.array(b["edges"])) and str(nz.binning.closed) == b["closed"], "nz:binning")
    # incompatible autocorrelation is rejected
    if case["ref"] is not None:
        bad = dict(case["ref"], binning=dict(b, edges=[e + 0.5 for e in b["edges"]]))
        ck.raises(lambda: RedshiftData.from_corrdata(objs["cross"], gen.build_sampled(bad), None), "nz:accepts-incompatible-binning")
    return ck.results()


norm_elem = st.one_of(gen.floats(1e-3, 1e4), gen.floats(-10.0, -1e-3), st.integers(0, 100).map(float), st.just(float("nan")))


@st.composite
def norm_case(draw):
    c = draw(gen.sampled_case(elem=norm_elem, max_bins=6, min_samples=1, max_samples=5))
    c["cls"] = draw(st.sampled_from(["HistData", "RedshiftData"]))
    return c


def run_norm(case):
    from yaw import HistData, RedshiftData

    cls = {"HistData": HistData, "RedshiftData": RedshiftData}[case["cls"]]
    obj = gen.build_sampled(case, cls)
    data = np.array(case["data"], float)
    dz = np.diff(np.array(case["binning"]["edges"], float))
    ck = Checker(len(dz) >= 2 and np.isfinite(data).sum() >= 2 and len(set(np.round(dz, 12))) > 1, classes=[f"cls:{case['cls']}", "has-nan" if np.isnan(data).any() else "finite"])
    # degenerate normalisation: the integral of the input (as the class defines its integrand) cancels
    integrand = dz * data if case["cls"] == "RedshiftData" else data
    tot, mag = np.nansum(integrand), np.nansum(np.abs(integrand))
    if not (mag > 0 and abs(tot) >= 1e-9 * mag):
        return Result.discard("degenerate_norm")
    with np.errstate(all="ignore"):
        ok, n = ck.call(obj.normalised, f"normalised:{case['cls']}")
    if not ok:
        return ck.results()
    integral = np.nansum(dz * n.data)
    ck.expect(abs(integral - 1.0) <= 1e-9, f"normalised:{case['cls']}:integral", f"integral = {integral!r}")
    # samples are scaled by the same factor as the data
    samples = np.array(case["samples"], float)
    with np.errstate(all="ignore"):
        fac_d = n.data / data
        fac_s = n.samples / samples
    f = fac_d[np.isfinite(fac_d) & (data != 0)]
    if len(f):
        if case["cls"] == "RedshiftData":
            ck.expect(np.allclose(f, f[0], rtol=1e-9), "normalised:RedshiftData:not-a-common-factor", str(f))
            fs = fac_s[np.isfinite(fac_s) & (samples != 0)]
            ck.expect(np.allclose(fs, f[0], rtol=1e-9), "normalised:RedshiftData:samples-scaled-differently")
        else:
            # histogram density: per-bin factor proportional to 1/dz, same for data and samples
            per_bin = fac_d * dz
            pb = per_bin[np.isfinite(per_bin) & (data != 0)]
            ck.expect(np.allclose(pb, pb[0], rtol=1e-9), "normalised:HistData:not-counts-per-width", str(pb))
            with np.errstate(all="ignore"):
                good = np.isfinite(fac_s) & (samples != 0) & np.isfinite(fac_d)[None, :]
                ck.expect(np.allclose(fac_s[good], np.broadcast_to(fac_d, fac_s.shape)[good], rtol=1e-9), "normalised:HistData:samples-scaled-differently")
    ck.expect(np.array_equal(obj.data, data, equal_nan=True), "normalised:mutates-original")
    return ck.results()


def components():
    comps = [
        Component("estimators", cf_case(), run_cf, quick=5000, thorough=200_000),
        Component("nz_formula", nz_case(), run_nz, quick=3000, thorough=100_000),
        Component("normalised", norm_case(), run_norm, quick=3000, thorough=100_000),
    ]
    try:
        from props import _c04_e2e

        comps.extend(_c04_e2e.components())
    except ImportError:
        pass
    return comps
