"""
C15 — configurations mean what their parameters say; modify equals create.
"""

from __future__ import annotations

import copy
import math

import numpy as np
from hypothesis import strategies as st

from vlib import gen
from vlib import pipeline as pl
from vlib.runner import Checker, Component, Result, exc_sig

PROPERTY = "C15"
LEVEL = "exploration"
RULE = (
    "Hypothesis draws Configuration.create parameter sets (binning methods linear/comoving/logspace/custom, closed side, all eight units, "
    "scalar or list scales, rweight/resolution, cosmologies Planck15/WMAP9/custom subclass), invalid variants (non-increasing or single "
    "edges, rmin>=rmax, length mismatch, unknown method/unit/cosmology, neither edges nor zmin/zmax) and modifications of 1-4 parameters. "
    "Oracle: edge count, strict monotonicity, exact end points, uniform spacing in z / comoving distance / ln(1+z) from astropy, "
    "angles r/D(z) from astropy for the unit's measure, invalid -> raises, modify == create(merged) by == and field by field, original "
    "unchanged, attribute assignment raises, equal parameters compare equal. Non-trivial: a modification that regenerates the edges, or a "
    "non-default cosmology with the comoving method; distinct = case digest."
)
ASSUMPTIONS = [
    "no factor of h is asserted for kpc/h and Mpc/h (angle = r / comoving distance in Mpc as documented)",
    "for configurations with custom edges only modifications with a well-defined merge are generated",
    "spacing tolerance rtol 1e-6 (z_at_value root finding), end points exact",
]

METHODS = ["linear", "comoving", "logspace"]


@st.composite
def params_strategy(draw):
    cfg, theta = draw(gen.config_case(max_bins=6, max_scales=3))
    cfg.pop("scalar_scales")
    cfg["scalar"] = len(cfg["rmin"]) == 1 and draw(st.booleans())
    cfg["max_workers"] = draw(st.sampled_from([None, None, 1, 4]))
    if draw(st.integers(0, 3)) == 3 and all(math.floor(lo) >= 1 for lo in cfg["rmin"]):
        # lower limits given as integers (rmin=1, rmax=2.5 is a natural way to write scales)
        cfg["rmin"] = [int(math.floor(lo)) for lo in cfg["rmin"]]
        cfg["int_rmin"] = True
    return cfg


def create_kwargs(p):
    kw = dict(rmin=p["rmin"], rmax=p["rmax"], unit=p["unit"], rweight=p["rweight"], resolution=p["resolution"], closed=p["closed"], cosmology=pl.get_cosmology(p["cosmology"]), max_workers=p.get("max_workers"))
    if p.get("scalar") and len(p["rmin"]) == 1:
        kw["rmin"], kw["rmax"] = p["rmin"][0], p["rmax"][0]
    if p["edges"] is not None:
        kw["edges"] = p["edges"]
    else:
        kw.update(zmin=p["zmin"], zmax=p["zmax"], num_bins=p["num_bins"], method=p["method"])
    return kw


def reference_transform(method, cosmology):
    """monotonic function in which the edges must be uniformly spaced"""
    if method == "linear":
        return lambda z: np.asarray(z, float)
    if method == "logspace":
        return lambda z: np.log1p(np.asarray(z, float))
    return lambda z: pl.distance_mpc(cosmology, "Mpc/h", z)


def check_config(ck, cfg, p, tag):
    """all structural claims about a configuration built from parameters p"""
    edges = np.asarray(cfg.binning.edges, float)
    if p["edges"] is not None:
        exp_edges = np.asarray(p["edges"], float)
        ck.expect(np.array_equal(edges, exp_edges), f"{tag}:custom-edges-changed", lambda: f"{edges.tolist()} vs {exp_edges.tolist()}")
        ck.expect(str(cfg.binning.method) == "custom", f"{tag}:method", str(cfg.binning.method))
    else:
        nb = p["num_bins"]
        ck.expect(len(edges) == nb + 1, f"{tag}:number-of-edges", f"{len(edges)} edges for {nb} bins ({p['method']})")
        ck.expect(np.all(np.diff(edges) > 0), f"{tag}:edges-not-increasing", str(edges.tolist()))
        ck.expect(edges[0] == p["zmin"] and edges[-1] == p["zmax"], f"{tag}:endpoints-not-exact:{p['method']}", lambda: f"edges[0]-zmin={edges[0] - p['zmin']:.3e}, edges[-1]-zmax={edges[-1] - p['zmax']:.3e} ({p['cosmology']})")
        f = reference_transform(p["method"], p["cosmology"])
        t = f(edges)
        target = t[0] + (t[-1] - t[0]) * np.arange(nb + 1) / nb
        if p["method"] == "comoving":
            # the library inverts chi(z) with astropy's z_at_value (tolerance 1e-8 in z): compare in z
            dchi_dz = np.gradient(t, edges) if nb > 1 else np.array([(t[-1] - t[0]) / (edges[-1] - edges[0])] * 2)
            dz = np.abs(t - target) / np.abs(dchi_dz)
            ck.expect(np.all(dz <= 2e-7), f"{tag}:spacing-not-uniform:{p['method']}", lambda: f"edges off by {dz.tolist()} in z ({p['cosmology']})")
        else:
            ck.expect(np.allclose(t, target, rtol=1e-12, atol=1e-15), f"{tag}:spacing-not-uniform:{p['method']}", lambda: f"{np.diff(t).tolist()} ({p['cosmology']})")
        ck.expect(str(cfg.binning.method) == p["method"], f"{tag}:method")
        ck.expect(cfg.binning.zmin == p["zmin"] and cfg.binning.zmax == p["zmax"] and cfg.binning.num_bins == nb, f"{tag}:zmin-zmax-num_bins-attributes")
    ck.expect(str(cfg.binning.closed) == p["closed"] and str(cfg.binning.binning.closed) == p["closed"], f"{tag}:closed")
    # scales
    ck.expect(cfg.scales.num_scales == len(p["rmin"]), f"{tag}:num_scales")
    ck.expect(np.array_equal(np.atleast_1d(cfg.scales.rmin), p["rmin"]) and np.array_equal(np.atleast_1d(cfg.scales.rmax), p["rmax"]), f"{tag}:rmin-rmax")
    ck.expect(str(cfg.scales.unit) == p["unit"], f"{tag}:unit")
    ck.expect(cfg.scales.rweight == p["rweight"] and cfg.scales.resolution == p["resolution"], f"{tag}:rweight-resolution")
    for z in ((edges[:-1] + edges[1:]) / 2.0)[:3]:
        ok, ang = ck.call(lambda: cfg.scales.scales.get_angle_radian(float(z), cosmology=cfg.cosmology), f"{tag}:get_angle_radian")
        if ok:
            lo = pl.scale_to_angle(p["cosmology"], p["unit"], p["rmin"], z)
            hi = pl.scale_to_angle(p["cosmology"], p["unit"], p["rmax"], z)
            ck.expect(np.allclose(ang[0], lo, rtol=1e-12, atol=0) and np.allclose(ang[1], hi, rtol=1e-12, atol=0), f"{tag}:angle-not-r/D(z):{p['unit']}", lambda: f"z={z}: {np.asarray(ang[1]).tolist()} vs {hi.tolist()} ({p['cosmology']})")
    # cosmology honoured
    want = pl.get_cosmology(p["cosmology"])
    ck.expect(cfg.cosmology is want or cfg.cosmology == want, f"{tag}:cosmology-not-stored")


def fields(cfg):
    return {
        "edges": np.asarray(cfg.binning.edges, float).tolist(),
        "closed": str(cfg.binning.closed),
        "method": str(cfg.binning.method),
        "rmin": np.atleast_1d(cfg.scales.rmin).tolist(),
        "rmax": np.atleast_1d(cfg.scales.rmax).tolist(),
        "unit": str(cfg.scales.unit),
        "rweight": cfg.scales.rweight,
        "resolution": cfg.scales.resolution,
        "cosmology": getattr(cfg.cosmology, "name", type(cfg.cosmology).__name__),
        "max_workers": cfg.max_workers,
    }


def run_create(p):
    from yaw import Configuration

    ck = Checker(p["cosmology"] != "Planck15" and p["method"] == "comoving", classes=[f"method:{p['method']}", f"unit:{p['unit']}", f"cosmology:{p['cosmology']}", "scalar" if p.get("scalar") else "list"])
    ok, cfg = ck.call(lambda: Configuration.create(**create_kwargs(p)), f"create:{p['method']}:{p['cosmology']}")
    if not ok:
        return ck.results()
    check_config(ck, cfg, p, "create")
    # equal parameters compare equal; immutability
    ok, cfg2 = ck.call(lambda: Configuration.create(**create_kwargs(copy.deepcopy(p))), "create-twin")
    if ok:
        ok, v = ck.call(lambda: cfg == cfg2, "eq:equal-parameters")
        if ok:
            ck.expect(v is True, "eq:equal-parameters-compare-unequal", repr(v))
    for obj, attr in ((cfg, "max_workers"), (cfg.binning, "method"), (cfg.scales, "rweight"), (cfg, "cosmology")):
        ck.raises(lambda: setattr(obj, attr, None), f"immutable:{type(obj).__name__}.{attr}")
    ck.expect(fields(cfg) == fields(cfg2), "create:not-deterministic")
    # the same parameters with another cosmology, in the same process: nothing of the first
    # configuration may carry over (the two unnamed test cosmologies differ in Om0 and curvature)
    p2 = dict(copy.deepcopy(p), cosmology="curved" if p["cosmology"] != "curved" else "custom")
    ok, cfg3 = ck.call(lambda: Configuration.create(**create_kwargs(p2)), f"create:{p2['method']}:{p2['cosmology']}")
    if ok:
        n_before = len(ck.fails)
        check_config(ck, cfg3, p2, "create")
        for r in ck.fails[n_before:]:
            r.sig = "after-other-cosmology:" + r.sig
    return ck.results()


# --------------------------------------------------------------------------
@st.composite
def modify_case(draw):
    p = draw(params_strategy())
    keys = ["rmin_rmax", "unit", "rweight", "resolution", "closed", "cosmology", "max_workers"]
    if p["edges"] is None:
        keys += ["zmin", "zmax", "num_bins", "method", "edges", "zrange"]
    else:
        keys += ["edges", "full_auto"]
    chosen = draw(st.lists(st.sampled_from(keys), min_size=1, max_size=4, unique=True))
    if "edges" in chosen:
        chosen = [k for k in chosen if k not in ("zmin", "zmax", "num_bins", "method", "zrange", "full_auto")]
    if "full_auto" in chosen or "zrange" in chosen:
        chosen = [k for k in chosen if k not in ("zmin", "zmax")]
    m = {}
    for k in chosen:
        if k == "rmin_rmax":
            ns = draw(st.integers(1, 3))
            hi = [draw(gen.floats(1.0, 1000.0)) for _ in range(ns)]
            m["rmax"] = hi
            m["rmin"] = [h * draw(gen.floats(0.01, 0.9)) for h in hi]
        elif k == "unit":
            m["unit"] = draw(st.sampled_from(gen.UNITS))
        elif k == "rweight":
            m["rweight"] = draw(st.one_of(st.none(), gen.floats(-2.0, 2.0)))
        elif k == "resolution":
            m["resolution"] = draw(st.one_of(st.none(), st.integers(1, 60)))
        elif k == "closed":
            m["closed"] = draw(gen.closed_strategy)
        elif k == "cosmology":
            m["cosmology"] = draw(st.sampled_from(["Planck15", "WMAP9", "Planck18", "custom", "curved"]))
        elif k == "max_workers":
            m["max_workers"] = draw(st.sampled_from([None, 2, 8]))
        elif k == "zmin":
            # incl. the boundary value 0.0 (falsy!), which is a valid lower limit
            m["zmin"] = draw(st.sampled_from([0.0, None, None])) if p["method"] != "comoving" else None
            if m["zmin"] is None:
                m["zmin"] = p["zmin"] * draw(gen.floats(0.3, 0.95))
        elif k == "zmax":
            m["zmax"] = p["zmax"] + draw(gen.floats(0.05, 1.0))
        elif k == "num_bins":
            m["num_bins"] = draw(st.integers(1, 7))
        elif k == "method":
            m["method"] = draw(st.sampled_from(METHODS))
        elif k == "zrange":
            lo = draw(gen.floats(0.02, 2.0))
            m["zmin"], m["zmax"] = lo, lo + draw(gen.floats(0.05, 2.0))
        elif k == "edges":
            m["edges"] = draw(gen.edges_strategy(max_bins=5, zlo=0.02, zhi=2.0))
        elif k == "full_auto":
            lo = draw(gen.floats(0.02, 2.0))
            m.update(zmin=lo, zmax=lo + draw(gen.floats(0.05, 2.0)), num_bins=draw(st.integers(1, 6)), method=draw(st.sampled_from(METHODS)))
    return {"params": p, "modify": m}


def merged_params(p, m):
    q = copy.deepcopy(p)
    for k in ("rmin", "rmax", "unit", "rweight", "resolution", "closed", "cosmology", "max_workers"):
        if k in m:
            q[k] = m[k]
    if "rmin" in m:
        q["scalar"] = False
    if "edges" in m:
        q.update(edges=m["edges"], zmin=None, zmax=None, num_bins=None, method="custom")
    elif any(k in m for k in ("zmin", "zmax", "num_bins", "method")):
        q["edges"] = None
        for k in ("zmin", "zmax", "num_bins", "method"):
            if k in m:
                q[k] = m[k]
    return q


def run_modify(case):
    from yaw import Configuration

    p, m = case["params"], case["modify"]
    regen = any(k in m for k in ("zmin", "zmax", "num_bins", "method")) or ("cosmology" in m and p["method"] == "comoving")
    ck = Checker(regen or (p["cosmology"] != "Planck15" and p["method"] == "comoving"), classes=[f"base:{p['method']}", f"base-cosmology:{p['cosmology']}"] + [f"mod:{k}" for k in sorted(m)])
    ok, cfg = ck.call(lambda: Configuration.create(**create_kwargs(p)), "create")
    if not ok:
        return ck.results()
    before = fields(cfg)
    mk = dict(m)
    if "cosmology" in mk:
        mk["cosmology"] = pl.get_cosmology(mk["cosmology"])
    q = merged_params(p, m)
    if len(q["rmin"]) != len(q["rmax"]):
        return Result.discard("length-mismatch")
    try:
        ref = Configuration.create(**create_kwargs(q))
    except Exception:  # noqa
        # the merged parameters are not a valid configuration (e.g. comoving binning from z=0):
        # then the modification has to be refused as well
        ck.cls("merged-invalid")
        ck.raises(lambda: cfg.modify(**mk), "modify:accepts-what-create-rejects")
        return ck.results()
    tag = "custom-base" if p["edges"] is not None else "auto-base"
    kinds = "+".join(sorted(m))
    ok, mod = ck.call(lambda: cfg.modify(**mk), f"modify:{tag}")
    if ok:
        fm, fr = fields(mod), fields(ref)
        if fm != fr:
            diff = [k for k in fm if fm[k] != fr[k]]
            cosmo_note = f":base-cosmology-{'default' if p['cosmology'] == 'Planck15' else 'non-default'}" if "edges" in diff else ""
            ck.fail(f"modify!=create(merged):{tag}:{'+'.join(diff)}{cosmo_note}", f"modify({kinds}) gives {[(k, fm[k]) for k in diff]}, create(merged) gives {[(k, fr[k]) for k in diff]}; base cosmology {p['cosmology']}, method {q['method']}")
        ok2, v = ck.call(lambda: mod == ref, "eq:modify-vs-create")
        if ok2:
            ck.expect(v is True, "eq:modified-not-equal-to-created", repr(v))
        check_config(ck, mod, q, "modified")
    ck.expect(fields(cfg) == before, "modify:mutated-original")
    # different parameters compare unequal
    if ok and fields(ref) != before and {k: v for k, v in fields(ref).items() if k != "max_workers"} != {k: v for k, v in before.items() if k != "max_workers"}:
        ok3, v = ck.call(lambda: cfg == ref, "eq:different-parameters")
        if ok3:
            both_custom = p["cosmology"] == "custom" and q["cosmology"] == "custom"
            ck.expect(v is False, "eq:different-parameters-compare-equal", f"modification {kinds}")
    return ck.results()


# --------------------------------------------------------------------------
INVALID = ["edges_not_increasing", "edges_single", "edges_equal", "rmin_ge_rmax", "rmin_eq_rmax", "length_mismatch", "unknown_method", "unknown_unit", "unknown_cosmology", "no_binning", "only_zmin", "unknown_closed", "zmin_ge_zmax"]


@st.composite
def invalid_case(draw):
    p = draw(params_strategy())
    ns = draw(st.integers(1, 4))
    bad = draw(st.lists(st.booleans(), min_size=ns, max_size=ns))
    bad[draw(st.integers(0, ns - 1))] = True  # which of the scales are invalid: any non-empty subset
    return {"params": p, "invalid": draw(st.sampled_from(INVALID)), "x": draw(gen.floats(0.1, 2.0)), "bad": bad, "equal": draw(st.booleans())}


def run_invalid(case):
    from yaw import Configuration

    p = copy.deepcopy(case["params"])
    kind = case["invalid"]
    kw = create_kwargs(p)
    x = case["x"]
    if kind == "edges_not_increasing":
        for k in ("zmin", "zmax", "num_bins", "method"):
            kw.pop(k, None)
        kw["edges"] = [x, x + 0.5, x + 0.2, x + 0.9]
    elif kind == "edges_single":
        for k in ("zmin", "zmax", "num_bins", "method"):
            kw.pop(k, None)
        kw["edges"] = [x]
    elif kind == "edges_equal":
        for k in ("zmin", "zmax", "num_bins", "method"):
            kw.pop(k, None)
        kw["edges"] = [x, x + 0.5, x + 0.5, x + 0.9]
    elif kind == "rmin_ge_rmax":
        bad = case.get("bad", [True, False])
        lo = [x * (i + 1) for i in range(len(bad))]
        hi = [v * (1.0 if (b and case.get("equal")) else (0.5 if b else 3.0)) for v, b in zip(lo, bad)]
        kw["rmin"], kw["rmax"] = (lo, hi) if len(bad) > 1 else (lo[0], hi[0])
    elif kind == "rmin_eq_rmax":
        kw["rmin"], kw["rmax"] = x, x
    elif kind == "length_mismatch":
        kw["rmin"], kw["rmax"] = [x, 2 * x], [10 * x]
    elif kind == "unknown_method":
        kw.pop("edges", None)
        kw.update(zmin=x, zmax=x + 1, num_bins=3, method="quadratic")
    elif kind == "unknown_unit":
        kw["unit"] = "lightyears"
    elif kind == "unknown_cosmology":
        kw["cosmology"] = "NotACosmology"
    elif kind == "unknown_closed":
        kw["closed"] = "both"
    elif kind == "no_binning":
        for k in ("zmin", "zmax", "edges"):
            kw.pop(k, None)
    elif kind == "only_zmin":
        kw.pop("edges", None)
        kw.pop("zmax", None)
        kw["zmin"] = x
    elif kind == "zmin_ge_zmax":
        kw.pop("edges", None)
        kw.update(zmin=x + 1.0, zmax=x, num_bins=3, method="linear")
    ck = Checker(True, classes=[f"invalid:{kind}"])
    ck.raises(lambda: Configuration.create(**kw), f"invalid-accepted:{kind}")
    return ck.results()


def components():
    return [
        Component("create", params_strategy(), run_create, quick=1200, thorough=40_000),
        Component("modify", modify_case(), run_modify, quick=1500, thorough=40_000),
        Component("invalid", invalid_case(), run_invalid, quick=600, thorough=10_000),
    ]
