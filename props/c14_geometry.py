"""
C14 — spherical geometry primitives are accurate everywhere on the sphere.

Oracle: 50-digit mpmath evaluation of the exact formulas on the *binary* inputs
that are handed to the library.  Bounds are explicit constants (below), chosen
with a margin of >= 4x over the worst error observed while calibrating on the
unchanged tree; they are frozen here.
"""

from __future__ import annotations

import math

import numpy as np
from hypothesis import strategies as st

from vlib.runner import Checker, Component

PROPERTY = "C14"
LEVEL = "exploration"
RULE = (
    "Hypothesis draws sky positions from a mixture (uniform sphere, exact poles, poles +- 10^-k, RA in {0, pi, 2pi-eps}), "
    "partner points at separations 10^U[-16,0], near-antipodal pi-10^U[-12,-1] and exactly antipodal, distances in [0,pi], "
    "chords in [0,2] and weighted point sets; oracle = mpmath (50 digits) on the binary inputs with explicit error bounds. "
    "Non-trivial: an input within 1e-6 rad of a pole, the RA seam or the antipode, or a separation < 1e-8; distinct = case digest."
    ' Extensions: coordinates are also handed over as float32/float16 arrays or nested lists; the reference uses the values those hold.'
)
ASSUMPTIONS = [
    "error bounds: to_3d 4e-16 per component; distance 2e-15*(1+theta)/max(cos(theta/2),2e-8); from_3d(to_3d) Dec 2e-15/max(cos(dec),3e-8), RA 2e-15/max(cos(dec),1e-300) (not judged within 1e-7 of a pole); mean 1e-7 rad",
    "mpmath 1.3 at 50 digits is exact enough to serve as reference",
]

TWO_PI = 2.0 * math.pi
HALF_PI = 0.5 * math.pi

BOUND_TO3D = 4e-16
BOUND_DIST = 2e-15
BOUND_MEAN = 1e-7


def mp():
    import mpmath

    mpmath.mp.dps = 50
    return mpmath


# --------------------------------------------------------------------------
# generators
# --------------------------------------------------------------------------
def _f(lo, hi):
    return st.floats(lo, hi, allow_nan=False, allow_infinity=False)


small_exp = _f(-16.0, 0.0).map(lambda e: 10.0**e)

ra_strategy = st.one_of(
    _f(0.0, TWO_PI).filter(lambda x: x < TWO_PI),
    st.sampled_from([0.0, math.pi, math.nextafter(TWO_PI, 0.0), HALF_PI, 1.5 * math.pi]),
    small_exp,
    small_exp.map(lambda e: math.nextafter(TWO_PI, 0.0) - e).filter(lambda x: 0 <= x < TWO_PI),
)

dec_strategy = st.one_of(
    _f(-1.0, 1.0).map(math.asin),
    st.sampled_from([HALF_PI, -HALF_PI, 0.0]),
    small_exp.map(lambda e: HALF_PI - e),
    small_exp.map(lambda e: -HALF_PI + e),
    small_exp,
    small_exp.map(lambda e: -e),
)

point = st.tuples(ra_strategy, dec_strategy).map(list)


def _rotate_towards(p, sep, bearing):
    """destination point at angular distance sep from p in direction bearing
    (plain float arithmetic; whatever comes out is the input that is tested)"""
    ra, dec = p
    sd = math.sin(dec) * math.cos(sep) + math.cos(dec) * math.sin(sep) * math.cos(bearing)
    sd = max(-1.0, min(1.0, sd))
    dec2 = math.asin(sd)
    y = math.sin(bearing) * math.sin(sep) * math.cos(dec)
    x = math.cos(sep) - math.sin(dec) * sd
    ra2 = (ra + math.atan2(y, x)) % TWO_PI
    if ra2 >= TWO_PI:
        ra2 = 0.0
    return [ra2, dec2]


def _antipode(p):
    ra, dec = p
    ra2 = ra + math.pi if ra < math.pi else ra - math.pi
    return [ra2, -dec]


@st.composite
def pair_case(draw):
    p = draw(point)
    mode = draw(st.sampled_from(["tiny", "any", "near_antipodal", "antipodal", "antipodal", "antipodal", "independent", "same"]))
    if mode == "tiny":
        q = _rotate_towards(p, draw(small_exp), draw(_f(0.0, TWO_PI)))
    elif mode == "any":
        q = _rotate_towards(p, draw(_f(0.0, math.pi)), draw(_f(0.0, TWO_PI)))
    elif mode == "near_antipodal":
        q = _rotate_towards(_antipode(p), draw(_f(-12.0, -1.0).map(lambda e: 10.0**e)), draw(_f(0.0, TWO_PI)))
    elif mode == "antipodal":
        q = _antipode(p)
    elif mode == "same":
        q = list(p)
    else:
        q = draw(point)
    # the coordinates are handed over as float64 (default), or in a narrower floating-point
    # type / as nested lists: the position is then the value that type holds
    return {"p": p, "q": q, "mode": mode, "dtype": draw(st.sampled_from(["f8", "f8", "f8", "f4", "f2", "list"]))}


@st.composite
def dist_case(draw):
    kind = draw(st.sampled_from(["angle", "chord"]))
    if kind == "angle":
        elem = st.one_of(_f(0.0, math.pi), st.sampled_from([0.0, math.pi, HALF_PI]), small_exp, small_exp.map(lambda e: math.pi - e))
    else:
        elem = st.one_of(_f(0.0, 2.0), st.sampled_from([0.0, 2.0, 1.0]), small_exp, small_exp.map(lambda e: 2.0 - e))
    vals = draw(st.lists(elem, min_size=2, max_size=6))
    return {"kind": kind, "values": vals}


@st.composite
def mean_case(draw):
    c = draw(point)
    n = draw(st.integers(1, 8))
    spread = draw(st.sampled_from([1e-9, 1e-4, 1e-2, 0.3, 1.0]))
    pts = [_rotate_towards(c, draw(_f(0.0, spread)), draw(_f(0.0, TWO_PI))) for _ in range(n)]
    weights = None
    if draw(st.booleans()):
        weights = draw(st.lists(_f(0.01, 10.0), min_size=n, max_size=n))
    # right ascension may be handed over in another convention (-pi..pi, or beyond one turn):
    # the position is the same, the returned RA is in [0, 2pi) all the same
    turns = draw(st.lists(st.sampled_from([0, 0, 0, -1, 1]), min_size=n, max_size=n))
    pts = [[p[0] + 2.0 * math.pi * t, p[1]] for p, t in zip(pts, turns)]
    return {"points": pts, "weights": weights, "centre": c, "spread": spread, "shifted": any(turns), "dtype": draw(st.sampled_from(["f8", "f8", "f8", "f4", "f2", "list"]))}


# --------------------------------------------------------------------------
# reference
# --------------------------------------------------------------------------
def ref_xyz(m, ra, dec):
    ra, dec = m.mpf(ra), m.mpf(dec)
    return (m.cos(ra) * m.cos(dec), m.sin(ra) * m.cos(dec), m.sin(dec))


def ref_sep(m, a, b):
    cx = a[1] * b[2] - a[2] * b[1]
    cy = a[2] * b[0] - a[0] * b[2]
    cz = a[0] * b[1] - a[1] * b[0]
    return m.atan2(m.sqrt(cx * cx + cy * cy + cz * cz), a[0] * b[0] + a[1] * b[1] + a[2] * b[2])


def as_input(points, dtype):
    """(object handed to AngularCoordinates, float64 values it represents); narrow types are
    only used when the rounded values are still valid sky coordinates"""
    arr = np.array(points, dtype=float)
    if dtype == "list":
        return arr.tolist(), arr
    in_range = np.all((arr[:, 0] >= 0) & (arr[:, 0] < TWO_PI))
    if dtype in ("f4", "f2"):
        narrow = arr.astype(dtype)
        back = narrow.astype(float)
        if np.all(np.isfinite(back)) and np.all((np.abs(back[:, 1]) <= HALF_PI)) and (not in_range or np.all((back[:, 0] >= 0) & (back[:, 0] < TWO_PI))):
            return narrow, back
    return arr, arr


def near_special(ra, dec):
    return abs(abs(dec) - HALF_PI) < 1e-6 or ra < 1e-6 or TWO_PI - ra < 1e-6


# --------------------------------------------------------------------------
def run_pair(case):
    from yaw.coordinates import AngularCoordinates

    m = mp()
    in_p, val_p = as_input([case["p"]], case.get("dtype", "f8"))
    in_q, val_q = as_input([case["q"]], case.get("dtype", "f8"))
    p, q = [float(x) for x in val_p[0]], [float(x) for x in val_q[0]]
    a = AngularCoordinates(in_p)
    b = AngularCoordinates(in_q)
    ra_ref, rb_ref = ref_xyz(m, *p), ref_xyz(m, *q)
    theta = ref_sep(m, ra_ref, rb_ref)
    th = float(theta)
    nontrivial = near_special(*p) or near_special(*q) or th < 1e-8 or math.pi - th < 1e-6
    ck = Checker(nontrivial, classes=[f"mode:{case['mode']}", f"input:{getattr(in_p, 'dtype', 'list')}"])
    if th < 1e-8:
        ck.cls("tiny-separation")
    if math.pi - th < 1e-6:
        ck.cls("near-antipodal")
    if abs(abs(p[1]) - HALF_PI) < 1e-6:
        ck.cls("pole")
    if p[0] < 1e-6 or TWO_PI - p[0] < 1e-6:
        ck.cls("ra-seam")

    # --- to_3d
    ok, xyz = ck.call(a.to_3d, "to_3d")
    if ok:
        err = max(abs(m.mpf(float(xyz[0, i])) - ra_ref[i]) for i in range(3))
        ck.expect(err <= BOUND_TO3D, "to_3d:inaccurate", f"err={float(err):.3e} at {p}")
        ck.expect(xyz.shape == (1, 3), "to_3d:shape")

    # --- distance (both directions, symmetric)
    for name, x, y in (("ab", a, b), ("ba", b, a)):
        ok, d = ck.call(lambda: x.distance(y), "distance")
        if not ok:
            break
        val = float(d.data[0])
        bound = BOUND_DIST * (1.0 + th) / max(math.cos(th / 2.0), 2e-8)
        err = abs(m.mpf(val) - theta)
        ck.expect(
            math.isfinite(val) and err <= bound,
            "distance:inaccurate",
            f"got {val!r}, exact {th!r}, err={float(err):.3e} > bound {bound:.3e} ({case['mode']})",
        )
        ck.expect(0.0 <= val <= math.pi + 1e-15, "distance:out-of-range", repr(val))

    # --- from_3d(to_3d(p)) round trip, RA range
    if ok:
        ok, back = ck.call(lambda: AngularCoordinates.from_3d(a.to_3d()), "from_3d")
        if ok:
            ra2, dec2 = float(back.ra[0]), float(back.dec[0])
            ck.expect(0.0 <= ra2 < TWO_PI, "from_3d:ra-not-in-[0,2pi)", f"ra={ra2!r} from {p}")
            cd = math.cos(p[1])
            derr = abs(dec2 - p[1])
            ck.expect(derr <= 2e-15 / max(cd, 3e-8) , "from_3d:dec-roundtrip", f"dec {p[1]!r} -> {dec2!r} ({derr:.3e})")
            sra = abs(math.sin(p[0]))
            if cd > 1e-7:
                # arccos is ill-conditioned where |sin(ra)| is small: error ~ eps/|sin ra|, at most ~sqrt(eps)
                dra = abs(ra2 - p[0])
                dra = min(dra, TWO_PI - dra)
                bound = min(4e-8, 4e-15 / max(sra, 1e-300)) / cd
                ck.expect(dra <= bound, "from_3d:ra-roundtrip", f"ra {p[0]!r} -> {ra2!r} ({dra:.3e} > {bound:.3e}) dec={p[1]!r}")
            # on-sphere distance between original and round trip
            sep = float(ref_sep(m, ra_ref, ref_xyz(m, ra2, dec2)))
            ck.expect(sep <= 4e-8, "from_3d:roundtrip-distance", f"{sep:.3e}")
            if sra > 1e-3 and cd > 1e-3:
                bound = 1e-15 + 4e-16 / min(sra, cd)
                ck.expect(sep <= bound, "from_3d:roundtrip-distance-well-conditioned", f"{sep:.3e} > {bound:.3e} at {p}")
    return ck.results()


def run_dist(case):
    from yaw.coordinates import AngularDistances

    m = mp()
    vals = np.array(case["values"], dtype=float)
    ck = Checker(bool(np.any(vals < 1e-8) or np.any(np.abs(vals - (math.pi if case["kind"] == "angle" else 2.0)) < 1e-6)), classes=[f"kind:{case['kind']}"])
    if case["kind"] == "angle":
        ok, chords = ck.call(lambda: AngularDistances(vals).to_3d(), "AngularDistances.to_3d")
        if not ok:
            return ck.results()
        for v, c in zip(vals, chords):
            ref = 2 * m.sin(m.mpf(float(v)) / 2)
            ck.expect(abs(m.mpf(float(c)) - ref) <= 4e-16 * (1 + float(ref)), "dist.to_3d:inaccurate", f"{v!r} -> {c!r}")
        ck.expect(np.all((chords >= 0) & (chords <= 2.0)), "dist.to_3d:out-of-range")
        order = np.argsort(vals, kind="stable")
        ck.expect(np.all(np.diff(chords[order]) >= 0), "dist.to_3d:not-order-preserving", f"{vals[order]} -> {chords[order]}")
        ok, back = ck.call(lambda: AngularDistances.from_3d(chords), "AngularDistances.from_3d")
        if ok:
            for v, r in zip(vals, back.data):
                bound = 4e-16 * (1 + v) / max(math.cos(v / 2.0), 2e-8)
                ck.expect(abs(r - v) <= bound, "dist:angle-chord-angle-roundtrip", f"{v!r} -> {r!r} (bound {bound:.2e})")
    else:
        ok, ang = ck.call(lambda: AngularDistances.from_3d(vals), "AngularDistances.from_3d")
        if not ok:
            return ck.results()
        for v, a in zip(vals, ang.data):
            ref = 2 * m.asin(m.mpf(float(v)) / 2)
            bound = 4e-16 * (1 + float(ref)) / max(math.cos(float(ref) / 2.0), 2e-8)
            ck.expect(abs(m.mpf(float(a)) - ref) <= bound, "dist.from_3d:inaccurate", f"{v!r} -> {a!r}")
        ck.expect(np.all((ang.data >= 0) & (ang.data <= math.pi)), "dist.from_3d:out-of-range")
        order = np.argsort(vals, kind="stable")
        ck.expect(np.all(np.diff(ang.data[order]) >= 0), "dist.from_3d:not-order-preserving")
        ok, back = ck.call(lambda: ang.to_3d(), "AngularDistances.to_3d")
        if ok:
            for v, r in zip(vals, back):
                # chord -> angle -> chord: conditioning of asin near chord 2
                bound = 4e-16 * (1 + v) + (2e-8 if v > 2 - 1e-14 else 0) * 0
                ck.expect(abs(r - v) <= max(bound, 4.5e-16 * 2), "dist:chord-angle-chord-roundtrip", f"{v!r} -> {r!r}")
    # chords beyond the sphere diameter are rejected
    ck.raises(lambda: AngularDistances.from_3d(np.array([2.5])), "dist.from_3d:accepts-chord>2")
    return ck.results()


def run_mean(case):
    from yaw.coordinates import AngularCoordinates

    m = mp()
    in_pts, pts = as_input(case["points"], case.get("dtype", "f8"))
    w = None if case["weights"] is None else np.array(case["weights"], dtype=float)
    ck = Checker(near_special(*case["centre"]), classes=[f"spread:{case['spread']}", "weighted" if w is not None else "unweighted", f"input:{getattr(in_pts, 'dtype', 'list')}"] + (["ra-outside-[0,2pi)"] if case.get("shifted") else []))
    ws = [m.mpf(1)] * len(pts) if w is None else [m.mpf(float(x)) for x in w]
    sx = sy = sz = m.mpf(0)
    for (ra, dec), wi in zip(pts, ws):
        x, y, z = ref_xyz(m, float(ra), float(dec))
        sx += wi * x
        sy += wi * y
        sz += wi * z
    norm = m.sqrt(sx * sx + sy * sy + sz * sz) / sum(ws)
    if norm < 1e-3:
        from vlib.runner import Result

        return Result.discard("degenerate-mean")
    ok, mean = ck.call(lambda: AngularCoordinates(in_pts).mean(w), "mean")
    if ok:
        ra2, dec2 = float(mean.ra[0]), float(mean.dec[0])
        ck.expect(len(mean) == 1, "mean:shape")
        ck.expect(0.0 <= ra2 < TWO_PI, "mean:ra-not-in-[0,2pi)", f"{ra2!r}")
        sep = float(ref_sep(m, (sx, sy, sz), ref_xyz(m, ra2, dec2)))
        ck.expect(sep <= BOUND_MEAN, "mean:inaccurate", f"sep={sep:.3e}")
    return ck.results()


@st.composite
def xyz_case(draw):
    # incl. components so small that their squares are subnormal (1e-155 ... 1e-162), of either sign
    tiny = st.tuples(st.sampled_from([1.0, -1.0]), _f(-162.0, -150.0)).map(lambda t: t[0] * 10.0 ** t[1])
    comp = st.one_of(st.sampled_from([0.0, 0.0, 1.0, -1.0]), _f(-1.0, 1.0), small_exp, small_exp.map(lambda e: -e), tiny)
    v = [draw(comp), draw(comp), draw(comp)]
    scale = draw(st.sampled_from([1.0, 1.0, 2.5, 1e-3]))
    return {"xyz": [c * scale for c in v]}


def run_xyz(case):
    from yaw.coordinates import AngularCoordinates

    m = mp()
    x, y, z = case["xyz"]
    norm = math.sqrt(x * x + y * y + z * z)
    if norm < 1e-12:
        from vlib.runner import Result

        return Result.discard("zero-vector")
    on_axis = (y == 0.0) or (x == 0.0 and y == 0.0)
    ck = Checker(on_axis or abs(z) / norm > 1 - 1e-12, classes=["y==0" if y == 0.0 else "generic", "x<0,y==0" if (y == 0.0 and x < 0) else "other"])
    ok, c = ck.call(lambda: AngularCoordinates.from_3d(np.array([[x, y, z]])), "from_3d(xyz)")
    if not ok:
        return ck.results()
    ra, dec = float(c.ra[0]), float(c.dec[0])
    ck.expect(0.0 <= ra < TWO_PI, "from_3d(xyz):ra-not-in-[0,2pi)", repr(ra))
    ref_dec = m.asin(m.mpf(z) / m.sqrt(m.mpf(x) ** 2 + m.mpf(y) ** 2 + m.mpf(z) ** 2))
    ck.expect(abs(m.mpf(dec) - ref_dec) <= 4e-8, "from_3d(xyz):dec", f"{dec!r} vs {float(ref_dec)!r}")
    rxy = math.hypot(x, y)
    if rxy / norm > 1e-6:
        ref_ra = m.atan2(m.mpf(y), m.mpf(x)) % (2 * m.pi)
        d = abs(m.mpf(ra) - ref_ra)
        d = min(d, 2 * m.pi - d)
        ck.expect(d <= 4e-8, "from_3d(xyz):ra", f"xyz={case['xyz']}: ra={ra!r}, exact {float(ref_ra)!r}")
    return ck.results()


@st.composite
def batch_case(draw):
    n = draw(st.sampled_from([1, 2, 3, 3, 3, 4, 5, 7]))
    return {"points": [draw(point) for _ in range(n)], "other": draw(point), "dtype": draw(st.sampled_from(["f8", "f8", "f4", "list"]))}


def run_batch(case):
    """several positions in one container (any number, in particular 2, 3 and 4: the sizes that
    can be confused with the vector components): every row is converted as it would be alone"""
    from yaw.coordinates import AngularCoordinates

    m = mp()
    in_pts, pts = as_input(case["points"], case.get("dtype", "f8"))
    n = len(pts)
    ck = Checker(n in (2, 3, 4) or any(near_special(*p) for p in pts), classes=[f"points:{n}"])
    c = AngularCoordinates(in_pts)
    ok, xyz = ck.call(c.to_3d, "to_3d")
    if not ok:
        return ck.results()
    ck.expect(xyz.shape == (n, 3), "batch:to_3d:shape", str(xyz.shape))
    refs = [ref_xyz(m, float(p[0]), float(p[1])) for p in pts]
    if xyz.shape == (n, 3):
        err = max(abs(m.mpf(float(xyz[i, k])) - refs[i][k]) for i in range(n) for k in range(3))
        ck.expect(err <= BOUND_TO3D, "batch:to_3d:inaccurate", f"err={float(err):.3e}")
    ok, back = ck.call(lambda: AngularCoordinates.from_3d(xyz), "from_3d")
    if ok:
        ck.expect(len(back) == n, "batch:from_3d:length", f"{len(back)} for {n} vectors")
        if len(back) == n:
            worst = max(float(ref_sep(m, refs[i], ref_xyz(m, float(back.ra[i]), float(back.dec[i])))) for i in range(n))
            ck.expect(worst <= 4e-8, "batch:from_3d:roundtrip-distance", f"{worst:.3e} for {n} points")
    o = AngularCoordinates(np.array([case["other"]]))
    oref = ref_xyz(m, *case["other"])
    for name, fn in (("many-to-one", lambda: c.distance(o)), ("one-to-many", lambda: o.distance(c)), ("elementwise", lambda: c.distance(c))):
        ok, d = ck.call(fn, f"distance:{name}")
        if not ok:
            continue
        vals = np.asarray(d.data, dtype=float)
        ck.expect(vals.shape == (n,), f"batch:distance:{name}:shape", str(vals.shape))
        if vals.shape != (n,):
            continue
        for i in range(n):
            th = 0.0 if name == "elementwise" else float(ref_sep(m, refs[i], oref))
            bound = BOUND_DIST * (1.0 + th) / max(math.cos(th / 2.0), 2e-8)
            if not (math.isfinite(vals[i]) and abs(vals[i] - th) <= bound + (1e-300 if name != "elementwise" else 0.0)):
                ck.fail(f"batch:distance:{name}:inaccurate", f"row {i} of {n}: got {vals[i]!r}, exact {th!r}")
                break
    return ck.results()


def components():
    return [
        Component("batches", batch_case(), run_batch, quick=3_000, thorough=100_000),
        Component("pairs", pair_case(), run_pair, quick=30_000, thorough=600_000),
        Component("distances", dist_case(), run_dist, quick=4_000, thorough=200_000),
        Component("mean", mean_case(), run_mean, quick=3_000, thorough=100_000),
        Component("from_xyz", xyz_case(), run_xyz, quick=3_000, thorough=100_000),
    ]
