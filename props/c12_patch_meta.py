"""
C12 — patch metadata describe the patch, and patch i belongs to centre i.
"""

from __future__ import annotations

import math

import numpy as np
from hypothesis import strategies as st

from vlib import gen, sources
from vlib import pipeline as pl
from vlib.runner import Checker, Component, Result, Scratch, exc_sig

PROPERTY = "C12"
LEVEL = "exploration"
RULE = (
    "Hypothesis draws sky scenes (poles, RA seam, anywhere) and creates catalogs through all three patch-definition modes, with centre "
    "lists in arbitrary (non-RA) order, optionally one extra centre that attracts no object at an arbitrary list position, single-object "
    "patches, weighted/unweighted; and pairs of catalogs that are deliberately inconsistent (different id sets, permuted centres, one "
    "patch displaced by 0.1..10 patch radii). Oracle: metadata recomputed from the stored records (count, weight sum, every record within "
    "radius+1e-9 of the stored centre by an independent separation), centres exactly as given and in order or creation raises, "
    "re-assignment to the reported centres reproduces the stored partition, measurements raise for differing id sets and for centres "
    "farther apart than both patch radii. Non-trivial: >=3 patches whose centres are not in RA order, or an inconsistent pair."
    ' Extensions: the catalog is also inspected after being reopened with 2-4 workers finishing in a tape-chosen order; one case in 15 has 100-300 patches on a lattice.'
)
ASSUMPTIONS = [
    "only the 'must raise' direction is asserted for inconsistent catalogs (distance > both patch radii); acceptance below the radius is not required by the statement",
    "radius tolerance 1e-9 rad",
]


def sep(ra1, dec1, ra2, dec2):
    a = pl.to_xyz(ra1, dec1)
    b = pl.to_xyz(ra2, dec2)
    cr = np.cross(a, b)
    return np.arctan2(np.sqrt((cr**2).sum(axis=-1)), (a * b).sum(axis=-1))


@st.composite
def meta_case(draw):
    edges = [0.1, 0.5, 1.0]
    theta = draw(gen.loguniform(1e-3, 0.2))
    many = draw(st.sampled_from([False, False, True]))  # two-digit patch ids (string vs numeric order)
    if draw(st.integers(0, 14)) == 0:
        # hundreds of patches (three-digit patch ids; counts around the widths of 8/16-bit indices)
        scene = draw(gen.lattice_scene(draw(st.sampled_from([300, 257, 256, 255, 182, 129, 128, 127, 100]))))
    else:
        scene = draw(gen.scene_case(theta, edges, 1, min_patches=10 if many else 1, max_patches=14 if many else 6, max_per_patch=3 if many else 6))
    K = len(scene["centers"])
    mode = draw(st.sampled_from(["centers", "centers", "ids", "num", "catalog"]))  # catalog: patch_centers=<another Catalog>
    if K >= 100 and mode == "num":
        mode = "centers"
    perm = draw(st.permutations(list(range(K))))
    # the catalog is looked at as returned, or reopened with several workers whose tasks finish in
    # a tape-chosen order (the accessors are per patch index whatever the loading order was)
    case = {"scene": scene, "mode": mode, "perm": list(perm), "empty_centre_at": None, "reopen_workers": draw(st.sampled_from([None, None, 2, 3, 4])), "tape": draw(st.lists(st.integers(0, 5), max_size=10))}
    if mode == "centers" and draw(st.sampled_from([False, False, True])):
        case["empty_centre_at"] = draw(st.integers(0, K))  # position in the centre list
    if mode == "num":
        case["patch_num"] = draw(st.integers(1, max(1, min(3, K))))
    return case


def run_meta(case):
    from yaw import AngularCoordinates, Catalog

    scene = case["scene"]
    cat = scene["cats"][0]
    centers = np.array(scene["centers"], float)[case["perm"]]
    K = len(centers)
    cxyz = pl.to_xyz(centers[:, 0], centers[:, 1])
    s = pl.Sample(cat, cxyz)
    if s.margin.min() < 1e-12:
        return Result.discard("equidistant-object")
    ra_sorted = bool(np.all(np.diff(centers[:, 0]) >= 0))
    ck = Checker(K >= 3 and not ra_sorted, classes=[f"mode:{case['mode']}", f"patches:{K if K < 10 else ('>=10' if K < 100 else '>=100')}"])
    n = s.n
    w = s.w
    rec = np.column_stack([np.asarray(cat["ra"]), np.asarray(cat["dec"])])
    given = centers
    if case["empty_centre_at"] is not None:
        # far-away centre (antipode of the scene base) that attracts no object
        base = scene["base"]
        far = [(base[0] + math.pi) % (2 * math.pi), -base[1]]
        given = np.insert(centers, case["empty_centre_at"], far, axis=0)
        ck.cls("centre-without-objects")
        ck.nontrivial = True
    with Scratch() as tmp:
        try:
            if case["mode"] == "catalog":
                # centres taken from another catalog (created from the given centres with other objects)
                other = {"ra": [float(c[0]) for c in given], "dec": [float(c[1]) for c in given], "w": None, "z": None}
                first = pl.make_catalog(tmp / "first", other, given)
                import pandas as pd

                df = pd.DataFrame({"ra": cat["ra"], "dec": cat["dec"], **({"w": cat["w"]} if cat["w"] is not None else {})})
                catalog = Catalog.from_dataframe(tmp / "c", df, ra_name="ra", dec_name="dec", weight_name="w" if cat["w"] is not None else None, patch_centers=first, degrees=False, max_workers=1)
            elif case["mode"] == "centers":
                # the caller's array of centres is handed over and reused (overwritten) afterwards:
                # the catalog must keep the centres it was given
                import pandas as pd

                handed = np.array(given, dtype=float)
                df = pd.DataFrame({"ra": cat["ra"], "dec": cat["dec"], **({"w": cat["w"]} if cat["w"] is not None else {})})
                extra = {}
                if cat.get("stale_pid") is not None:  # redundant patch-index column: documented to be ignored
                    df["pid"] = np.asarray(cat["stale_pid"], dtype=np.int64)
                    extra["patch_name"] = "pid"
                catalog = Catalog.from_dataframe(tmp / "c", df, ra_name="ra", dec_name="dec", weight_name="w" if cat["w"] is not None else None, patch_centers=AngularCoordinates(handed), degrees=False, max_workers=1, **extra)
                handed[:] = handed[::-1] + 0.25
            elif case["mode"] == "ids":
                catalog = pl.make_catalog(tmp / "c", cat, patch_ids=s.patch)
            else:
                import pandas as pd

                df = pd.DataFrame({"ra": cat["ra"], "dec": cat["dec"], **({"w": cat["w"]} if cat["w"] is not None else {})})
                catalog = Catalog.from_dataframe(tmp / "c", df, ra_name="ra", dec_name="dec", weight_name="w" if cat["w"] is not None else None, patch_num=case["patch_num"], degrees=False, max_workers=1)
        except Exception as e:  # noqa
            if case["empty_centre_at"] is not None:
                ck.cls("creation-raised-for-empty-centre")
                return ck.results()  # allowed: creation may refuse a centre without objects
            if case["mode"] == "num" and ("contains no data" in str(e) or "infs or NaNs" in str(e)):
                return Result.discard("kmeans-degenerate")
            ck.fail(f"create|{exc_sig(e)}", f"{type(e).__name__}: {e}")
            return ck.results()

        if case.get("reopen_workers"):
            from vlib import schedpool

            try:
                with schedpool.Patched(case["tape"]) as fake:
                    catalog = Catalog(tmp / "c", max_workers=case["reopen_workers"])
            except Exception as e:  # noqa
                ck.fail(f"reopen|{exc_sig(e)}", f"{type(e).__name__}: {e}")
                return ck.results()
            ck.cls("reopened-with-workers" + (":non-identity-order" if fake.tape.nontrivial else ""))
        stored = sources.stored_records(catalog)
        keys = sorted(catalog.keys())
        got_centers = np.asarray(catalog.get_centers().data, float)
        radii = np.asarray(catalog.get_radii().data, float)
        ck.expect(got_centers.shape == (len(keys), 2) and radii.shape == (len(keys),), "meta:shapes")
        # ---- metadata describe the records
        for i, pid in enumerate(keys):
            r = stored[pid]
            meta = catalog[pid].meta
            ck.expect(int(meta.num_records) == len(r), "meta:num_records", f"patch {pid}: {meta.num_records} vs {len(r)}")
            exp_w = r[:, 2].sum() if cat["w"] is not None else float(len(r))
            ck.expect(math.isclose(float(meta.sum_weights), exp_w, rel_tol=1e-12, abs_tol=0), "meta:sum_weights", f"patch {pid}: {meta.sum_weights} vs {exp_w}")
            c = np.asarray(meta.center.data, float)[0]
            d = sep(r[:, 0], r[:, 1], c[0], c[1]) if len(r) else np.zeros(0)
            rad = float(np.asarray(meta.radius.data)[0])
            tol = 1e-9 + (2e-15 * (1 + d.max()) / max(math.cos(d.max() / 2), 2e-8) if len(r) else 0.0)  # chord conditioning near the antipode (C14)
            ck.expect(len(r) == 0 or d.max() <= rad + tol, "meta:record-outside-radius", lambda: f"patch {pid}: max distance {d.max()} > radius {rad}")
            ck.expect(len(r) == 0 or rad <= d.max() + tol, "meta:radius-too-large", lambda: f"patch {pid}: radius {rad} vs max distance {d.max()}")
            ck.expect(np.array_equal(got_centers[i], c) and radii[i] == rad, "meta:get_centers-order")
        # ---- patch i belongs to centre i
        if case["mode"] in ("centers", "catalog"):
            N = len(given)
            if keys != list(range(N)):
                ck.fail("centers:patches-not-0..N-1", f"keys {keys} for {N} given centres (empty centre at {case['empty_centre_at']})")
            if len(got_centers) == N and not np.array_equal(got_centers, given):
                ck.fail("centers:reported-centres-differ-from-given", f"{got_centers.tolist()} vs {given.tolist()}")
            elif len(got_centers) != N and case["empty_centre_at"] is not None:
                # which given centre does the library claim for each patch?
                for i, pid in enumerate(keys):
                    if not np.array_equal(got_centers[i], given[pid]):
                        ck.fail("centers:patch-id-not-aligned-with-centre", f"patch {pid} reports centre {got_centers[i].tolist()} but centre {pid} is {given[pid].tolist()}")
                        break
        if case["mode"] in ("centers", "num", "catalog") and len(got_centers) == len(keys) and np.all(np.isfinite(got_centers)):
            # re-assigning all records to the reported centres reproduces the stored partition
            want, margin = pl.nearest_centre(pl.to_xyz(rec[:, 0], rec[:, 1]), pl.to_xyz(got_centers[:, 0], got_centers[:, 1]))
            if margin.min() >= 1e-12:
                for i, pid in enumerate(keys):
                    exp = rec[want == i]
                    if sources.multiset(stored[pid][:, :2]) != sources.multiset(exp):
                        ck.fail(f"partition:not-reproduced-by-reported-centres:{'centers' if case['mode'] == 'catalog' else case['mode']}", f"patch {pid}: {len(stored[pid])} stored, {len(exp)} nearest to its reported centre")
                        break
        ck.expect(sum(len(v) for v in stored.values()) == n, "records:count")
    return ck.results()


# --------------------------------------------------------------------------
@st.composite
def pair_case(draw):
    edges = [0.1, 0.5, 1.0]
    theta = draw(gen.loguniform(2e-3, 0.1))
    scene = draw(gen.scene_case(theta, edges, 2, min_patches=2, max_patches=5, max_per_patch=5, need_z=(0, 1)))
    K = len(scene["centers"])
    kind = draw(st.sampled_from(["displace", "displace", "permute", "fewer", "none"]))
    case = {"scene": scene, "theta": theta, "kind": kind, "api": draw(st.sampled_from(["cross", "auto"]))}
    # which argument of crosscorrelate the (possibly inconsistent) second catalog is: every catalog
    # that is handed over has to pass the guard, whatever else is given
    case["role"] = draw(st.sampled_from(["unknown", "ref_rand", "ref_rand+unk_rand", "unk_rand"]))
    if kind == "displace":
        case["patch"] = draw(st.integers(0, K - 1))
        case["factor"] = draw(st.sampled_from([0.1, 2.0, 2.0, 10.0, 10.0]))
        case["bearing"] = draw(gen.floats(0.0, 2 * math.pi))
    elif kind == "permute":
        perm = draw(st.permutations(list(range(K))).filter(lambda p: list(p) != list(range(K))))
        case["perm"] = list(perm)
    return case


def run_pair(case):
    import yaw

    scene = case["scene"]
    centers = np.array(scene["centers"], float)
    K = len(centers)
    cxyz = pl.to_xyz(centers[:, 0], centers[:, 1])
    A, B = scene["cats"]
    sa, sb = pl.Sample(A, cxyz), pl.Sample(B, cxyz)
    if min(sa.margin.min(), sb.margin.min()) < 1e-12:
        return Result.discard("equidistant-object")
    ck = Checker(case["kind"] != "none", classes=[f"kind:{case['kind']}", f"api:{case['api']}"] + ([f"role:{case.get('role', 'unknown')}"] if case["api"] == "cross" else []))
    cfgd = {"edges": [0.1, 0.5, 1.0], "closed": "right", "zmin": None, "zmax": None, "num_bins": None, "method": "custom", "rmin": [case["theta"] * 0.1], "rmax": [case["theta"]], "unit": "rad", "cosmology": "Planck15", "rweight": None, "resolution": None}
    with Scratch() as tmp:
        try:
            cfg = pl.make_config(cfgd)
            cat_a = pl.make_catalog(tmp / "a", A, centers)
            if case["kind"] == "displace":
                # move all objects of one patch of B (and its centre) away by factor * radius of A's patch
                p = case["patch"]
                rad = float(np.asarray(cat_a.get_radii().data)[sorted(cat_a.keys()).index(p)])
                shift = case["factor"] * max(rad, 1e-4)
                from props.c14_geometry import _rotate_towards

                Bm = {k: (None if v is None else list(v)) for k, v in B.items()}
                for i in np.nonzero(sb.patch == p)[0]:
                    Bm["ra"][i], Bm["dec"][i] = _rotate_towards([B["ra"][i], B["dec"][i]], shift, case["bearing"])
                cat_b = pl.make_catalog(tmp / "b", Bm, patch_ids=sb.patch)
            elif case["kind"] == "permute":
                cat_b = pl.make_catalog(tmp / "b", B, centers[case["perm"]])
            elif case["kind"] == "fewer":
                keep = sb.patch != K - 1
                Bm = {k: (None if v is None else [x for x, m in zip(v, keep) if m]) for k, v in B.items()}
                cat_b = pl.make_catalog(tmp / "b", Bm, centers[: K - 1])
            else:
                cat_b = pl.make_catalog(tmp / "b", B, centers)
        except Exception as e:  # noqa
            ck.fail(f"create|{exc_sig(e)}", f"{type(e).__name__}: {e}")
            return ck.results()

        def run():
            if case["api"] == "cross":
                role = case.get("role", "unknown")
                if role == "unknown":
                    return yaw.crosscorrelate(cfg, cat_a, cat_b, unk_rand=cat_b, max_workers=1)
                # the other roles are filled by further (consistent) catalogs of A's objects
                a2 = pl.make_catalog(tmp / "a2", A, centers)
                if role == "ref_rand":
                    return yaw.crosscorrelate(cfg, cat_a, a2, ref_rand=cat_b, max_workers=1)
                if role == "unk_rand":
                    return yaw.crosscorrelate(cfg, cat_a, a2, unk_rand=cat_b, max_workers=1)
                a3 = pl.make_catalog(tmp / "a3", A, centers)
                return yaw.crosscorrelate(cfg, cat_a, a2, ref_rand=cat_b, unk_rand=a3, max_workers=1)
            return yaw.autocorrelate(cfg, cat_a, cat_b, count_rr=False, max_workers=1)

        must_raise = False
        why = ""
        if sorted(cat_a.keys()) != sorted(cat_b.keys()):
            must_raise, why = True, "id-sets-differ"
        else:
            ca, cb = np.asarray(cat_a.get_centers().data), np.asarray(cat_b.get_centers().data)
            ra_, rb_ = np.asarray(cat_a.get_radii().data), np.asarray(cat_b.get_radii().data)
            dist = sep(ca[:, 0], ca[:, 1], cb[:, 0], cb[:, 1])
            far = dist > np.maximum(ra_, rb_) * (1 + 1e-9) + 1e-12
            if far.any():
                must_raise, why = True, "centres-farther-apart-than-radius"
        ck.cls("must-raise:" + (why or "no"))
        try:
            run()
            raised = False
        except Exception as e:  # noqa
            raised = True
            err = e
        if must_raise:
            ck.expect(raised, f"inconsistent-catalogs-accepted:{why}:{case['kind']}", f"kind={case['kind']} factor={case.get('factor')}")
        elif raised and case["kind"] == "none":
            ck.fail(f"consistent-catalogs-rejected|{exc_sig(err)}", f"{type(err).__name__}: {err}")
    return ck.results()


def components():
    return [
        Component("metadata", meta_case(), run_meta, quick=1200, thorough=40_000),
        Component("inconsistent", pair_case(), run_pair, quick=400, thorough=12_000),
    ]
