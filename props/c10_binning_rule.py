"""
C10 — redshift-bin membership follows the closed-side rule everywhere.

Three consumers are observed on the same generated catalog: the per-bin trees
built by Catalog.build_trees (num_records / sum_weights), the per-bin per-patch
weight sums stored with an autocorrelation measurement, and the redshift
histogram.  Oracle: explicit interval tests lo < z <= hi / lo <= z < hi.
"""

from __future__ import annotations

import contextlib

import math

import numpy as np
from hypothesis import strategies as st

from vlib import gen
from vlib import pipeline as pl
from vlib.runner import Checker, Component, Scratch, exc_sig

PROPERTY = "C10"
LEVEL = "exploration"
RULE = (
    "Hypothesis draws bin edges (custom and method-generated), a closed side, 1-3 patches (patch-id column) and redshift arrays "
    "dominated by edge values (exact edges, nextafter of edges, below zmin, above zmax), weighted or not, with patches/bins left empty. "
    "Oracle: explicit interval membership per bin; compared with tree sizes and weight sums after build_trees, the weight sums of an "
    "autocorrelation, the weight sums and trees of every binned role of a cross-correlation (reference and reference randoms, each with its own cache) and HistData.from_catalog. Non-trivial: >=1 redshift exactly on an inner edge and >=1 on an outer edge; distinct = case digest."
    ' Extensions: one case in eight has 127-300 redshift bins.'
)
ASSUMPTIONS = ["bin edges are taken from the library's configuration (C15 checks them)", "weighted sums compared to rtol 1e-12"]


@st.composite
def case_strategy(draw):
    many = draw(st.integers(0, 7)) == 0  # occasionally hundreds of bins
    b = draw(gen.binning_params(max_bins=5, many_bins=many))
    cosmology = draw(st.sampled_from(["Planck15", "WMAP9"]))
    edges = gen.binning_edges_reference(b, cosmology).tolist()
    K = draw(st.integers(1, 3))
    n = draw(st.integers(K, 40))
    pid = list(range(K)) + draw(st.lists(st.integers(0, K - 1), min_size=n - K, max_size=n - K))
    z = draw(gen.redshift_values(n, edges))
    # optionally push one whole patch outside the binning
    if K > 1 and draw(st.sampled_from([False, False, True])):
        out = draw(st.integers(0, K - 1))
        z = [(edges[-1] + 0.5 if p == out else v) for p, v in zip(pid, z)]
    ra = draw(st.lists(gen.floats(0.1, 0.2), min_size=n, max_size=n))
    dec = draw(st.lists(gen.floats(-0.1, 0.1), min_size=n, max_size=n))
    w = draw(st.one_of(st.none(), st.lists(st.one_of(gen.floats(0.1, 5.0), st.sampled_from([1.0, 2.0, 0.5])), min_size=n, max_size=n)))
    return {"binning": b, "cosmology": cosmology, "cat": {"ra": ra, "dec": dec, "w": w, "z": z}, "pid": pid, "npatch": K, "workers": draw(st.sampled_from([1, 1, 2, 3])), "tape": draw(st.lists(st.integers(0, 5), max_size=8))}


def run_case(case):
    """the three consumers are checked with the configured closed side and then, on the same
    cache directory, with the other one (the rule must not stick to what was cached first)"""
    # with more than one worker the tasks (and the binning they carry) cross a pickle boundary
    # and finish in a tape-chosen order
    from vlib import schedpool

    ctx = schedpool.Patched(case.get("tape", [])) if case.get("workers", 1) > 1 else contextlib.nullcontext()
    with ctx:
        first = _run_one(case, flipped=False)
        if any(r.status == "fail" for r in first) or first[0].status == "discard":
            return first
        second = _run_one(case, flipped=True, after_first=True)
    fails = [r for r in second if r.status == "fail"]
    for r in fails:
        r.sig = "second-closed-side:" + r.sig
    return [first[0]] + fails


def _run_one(case, flipped, after_first=False):
    import yaw
    from yaw.catalog.trees import BinnedTrees
    from yaw.redshifts import HistData

    mw = int(case.get("workers", 1))
    b = dict(case["binning"])
    if flipped:
        b["closed"] = "left" if b["closed"] == "right" else "right"
    cfgd = dict(b, rmin=[0.001], rmax=[0.01], unit="rad", cosmology=case["cosmology"], rweight=None, resolution=None)
    K = case["npatch"]
    cat = case["cat"]
    z = np.array(cat["z"], float)
    w = np.ones(len(z)) if cat["w"] is None else np.array(cat["w"], float)
    pid = np.array(case["pid"])
    ck = Checker(classes=[f"closed:{b['closed']}", f"method:{b['method']}", "weighted" if cat["w"] is not None else "unweighted", f"workers:{mw}"])
    with Scratch() as tmp:
        try:
            cfg = pl.make_config(cfgd)
            edges = np.asarray(cfg.binning.edges, float)
            closed = str(cfg.binning.closed)
            # redshifts were generated on / next to the *reference* edges (computed without the
            # library); snap them onto the library's actual edges (comoving edges differ by ~1e-9)
            ref = gen.binning_edges_reference(b, case["cosmology"])
            if len(ref) == len(edges) and not np.array_equal(ref, edges):
                z = z.copy()
                for i in range(len(ref)):
                    for shift in (0, 1, -1):
                        src = ref[i] if shift == 0 else np.nextafter(ref[i], shift * np.inf)
                        dst = edges[i] if shift == 0 else np.nextafter(edges[i], shift * np.inf)
                        z[z == src] = dst
                cat = dict(cat, z=z.tolist())
            catalog = pl.make_catalog(tmp / "c", cat, patch_ids=pid)
            if after_first:
                # history: the same cache was used with the other closed side just before
                other = "left" if closed == "right" else "right"
                catalog.build_trees(edges, closed=other, max_workers=mw)
                yaw.autocorrelate(pl.make_config(dict(cfgd, closed=other)), catalog, catalog, count_rr=False, max_workers=mw)
        except Exception as e:  # noqa
            ck.fail(f"setup|{exc_sig(e)}", f"{type(e).__name__}: {e}")
            return ck.results()
        nb = len(edges) - 1
        member = pl.bin_membership(z, edges, closed)
        exp_n = np.zeros((nb, K))
        exp_w = np.zeros((nb, K))
        for i in range(len(z)):
            if member[i] >= 0:
                exp_n[member[i], pid[i]] += 1
                exp_w[member[i], pid[i]] += w[i]
        on_inner = np.isin(z, edges[1:-1]).any() if nb > 1 else False
        on_outer = np.isin(z, edges[[0, -1]]).any()
        ck.nontrivial = bool(on_inner and on_outer)
        if (exp_n.sum(axis=1) == 0).any():
            ck.cls("empty-bin")
        if (exp_n.sum(axis=0) == 0).any():
            ck.cls("patch-outside-binning")
        if on_inner:
            ck.cls("z-on-inner-edge")
        if on_outer:
            ck.cls("z-on-outer-edge")

        # ---- 1. tree building
        try:
            catalog.build_trees(edges, closed=closed, max_workers=mw)
            got_n = np.zeros((nb, K))
            got_w = np.zeros((nb, K))
            for p, patch in catalog.items():
                trees = BinnedTrees(patch)
                tl = list(trees.trees)
                ck.expect(len(tl) == nb, "trees:number-of-bins", f"{len(tl)} trees for {nb} bins")
                for bi, t in enumerate(tl[:nb]):
                    got_n[bi, p] = t.num_records
                    got_w[bi, p] = t.sum_weights
            if not np.array_equal(got_n, exp_n):
                bi, p = [int(x[0]) for x in np.nonzero(got_n != exp_n)]
                ck.fail(f"trees:membership:closed-{closed}", f"bin {bi} patch {p}: {got_n[bi, p]} objects, expected {exp_n[bi, p]}; edges={edges.tolist()} z={sorted(z[pid == p].tolist())}")
            elif not np.allclose(got_w, exp_w, rtol=1e-12, atol=0):
                ck.fail("trees:sum_weights", f"{got_w.tolist()} vs {exp_w.tolist()}")
        except Exception as e:  # noqa
            ck.fail(f"build_trees|{exc_sig(e)}", f"{type(e).__name__}: {e}")

        # ---- 2. weight sums of a measurement
        try:
            cf = yaw.autocorrelate(cfg, catalog, catalog, count_rr=False, max_workers=mw)[0]
            sw = np.asarray(cf.dd.sum_weights.sum_weights1, float)
            ck.expect(sw.shape == exp_w.shape and np.allclose(sw, exp_w, rtol=1e-12, atol=0), f"measurement:sum_weights:closed-{closed}", lambda: f"{sw.tolist()} vs {exp_w.tolist()}")
            sw2 = np.asarray(cf.dr.sum_weights.sum_weights2, float)
            ck.expect(sw2.shape == exp_w.shape and np.allclose(sw2, exp_w, rtol=1e-12, atol=0), f"measurement:sum_weights2:closed-{closed}")
        except Exception as e:  # noqa
            ck.fail(f"autocorrelate|{exc_sig(e)}", f"{type(e).__name__}: {e}")

        # ---- 2b. every binned role of a cross-correlation (reference and reference randoms, each
        # with its own cache directory, so that the trees are built by the measurement itself)
        try:
            ref_rand = pl.make_catalog(tmp / "r", cat, patch_ids=pid)
            unknown = pl.make_catalog(tmp / "u", cat, patch_ids=pid)
            unk_rand = pl.make_catalog(tmp / "v", cat, patch_ids=pid)
            reference = pl.make_catalog(tmp / "d", cat, patch_ids=pid)
            cc = yaw.crosscorrelate(cfg, reference, unknown, ref_rand=ref_rand, unk_rand=unk_rand, max_workers=mw)[0]
            for member_name, role in (("dd", "reference"), ("dr", "reference"), ("rd", "ref_rand"), ("rr", "ref_rand")):
                counts = getattr(cc, member_name)
                if counts is None:
                    ck.fail(f"crosscorrelate:missing-{member_name}", "requested pair counts absent")
                    continue
                swc = np.asarray(counts.sum_weights.sum_weights1, float)
                ck.expect(swc.shape == exp_w.shape and np.allclose(swc, exp_w, rtol=1e-12, atol=0), f"crosscorrelate:sum_weights:{member_name}:{role}:closed-{closed}", lambda: f"{swc.tolist()} vs {exp_w.tolist()}")
            for role, c in (("reference", reference), ("ref_rand", ref_rand)):
                got = np.zeros((nb, K))
                for p, patch in c.items():
                    for bi, t in enumerate(list(BinnedTrees(patch).trees)[:nb]):
                        got[bi, p] = t.num_records
                ck.expect(np.array_equal(got, exp_n), f"crosscorrelate:trees:{role}:closed-{closed}", lambda: f"{got.tolist()} vs {exp_n.tolist()}")
        except Exception as e:  # noqa
            ck.fail(f"crosscorrelate|{exc_sig(e)}", f"{type(e).__name__}: {e}")

        # ---- 3. histogram
        try:
            hist = HistData.from_catalog(catalog, cfg, max_workers=mw)
            data = np.asarray(hist.data, float)
            if data.shape != (nb,) or not np.allclose(data, exp_w.sum(axis=1), rtol=1e-12, atol=0):
                ck.fail(f"histogram:membership:closed-{closed}", f"{data.tolist()} vs {exp_w.sum(axis=1).tolist()}; edges={edges.tolist()}")
            ck.expect(str(hist.binning.closed) == closed and np.array_equal(hist.binning.edges, edges), "histogram:binning")
        except Exception as e:  # noqa
            ck.fail(f"HistData.from_catalog|{exc_sig(e)}", f"{type(e).__name__}: {e}")
    return ck.results()


def components():
    return [Component("membership", case_strategy(), run_case, quick=1000, thorough=40_000)]
