"""
C06 — MPI runs terminate and the root rank gets the single-process result.

mpi4py and an MPI runtime are not installed; the MPI branches of yaw are executed
against vlib/fakempi, an executable model of the MPI semantics the property
quantifies over (see that module).  Hypothesis draws world size, worker limit,
workload inputs and the choice tape that resolves every scheduling decision.
"""

from __future__ import annotations

import atexit

import numpy as np
from hypothesis import strategies as st

from vlib import gen, sources
from vlib.runner import Checker, Component, HarnessError, Result, Scratch, exc_sig

PROPERTY = "C06"
LEVEL = "exploration"
RULE = (
    "Hypothesis draws a world size (2-6 ranks), a max_workers setting (None, 1..size+1), a workload (iter_unordered with a recording function; "
    "catalog creation from a data frame or HDF5 file with centres or patch ids; catalog reload; tree building; histogram; the full "
    "auto/cross-correlation pipeline incl. sampling and CorrFunc/CorrData/Configuration I/O) with small generated inputs, and a choice tape that "
    "resolves every decision of the simulated MPI runtime: next runnable rank, sender matched by a wildcard receive, eager vs synchronous "
    "completion of each send, early exit of a bcast root. Oracle: all ranks return (no deadlock, no exception, no unmatched message), every "
    "task executed exactly once, the catalog on disk holds exactly the input records, and the root's results equal a plain single-process "
    "run. Non-trivial: >=3 ranks and a run in which a wildcard receive had >=2 eligible senders or a message was overtaken by a later "
    "message of another sender; distinct = case digest."
    ' Extensions: one case in three places the ranks on up to three nodes (different processor names); iter_unordered also with rank0_node_only.'
)
ASSUMPTIONS = [
    "decided on an executable model of MPI point-to-point and collective semantics (non-overtaking per sender/receiver/communicator, wildcard matching, eager or synchronous standard sends), not on an MPI implementation",
    "one node (ranks_on_same_node sees a single processor name); MPI-IO and pickling limits of real mpi4py are not modelled",
    "catalog creation with fewer than two workers raises by design ('requires at least two workers'): not judged",
]

_CLIENT = None


def client():
    global _CLIENT
    if _CLIENT is None:
        from vlib.mpisim import SimClient

        _CLIENT = SimClient()
        _CLIENT.start()
        atexit.register(_CLIENT.close)
    return _CLIENT


KINDS = ["iter", "iter", "create", "create", "reload", "trees", "hist", "pipeline", "pipeline", "pipeline_io"]


@st.composite
def case_strategy(draw):
    kind = draw(st.sampled_from(KINDS))
    size = draw(st.sampled_from([2, 3, 3, 4, 4, 5, 6]))
    mw = draw(st.sampled_from([None, None, 1, 2, 3, size, size + 1]))
    case = {"kind": kind, "size": size, "max_workers": mw, "tape": draw(st.lists(st.integers(0, 11), min_size=0, max_size=40))}
    # node topology: mostly one node; otherwise every rank but the root is placed on one of up
    # to three nodes (catalog creation and rank0_node_only restrict themselves to the root's node)
    if draw(st.sampled_from([False, False, True])):
        case["nodes"] = ["n0"] + [draw(st.sampled_from(["n0", "n0", "n1", "n2"])) for _ in range(size - 1)]
    case["progress"] = kind != "iter" and draw(st.sampled_from([False, False, True]))
    if kind == "iter":
        case["rank0_node_only"] = draw(st.booleans())
        case["items"] = draw(st.lists(st.integers(0, 50), min_size=0, max_size=12))
        case["offset"] = draw(st.integers(0, 3))
        return case
    cfg, theta = draw(gen.config_case(max_bins=2, max_scales=1, allow_rweight=False, units=["rad", "kpc", "Mpc/h"]))
    if cfg["cosmology"] in ("custom", "curved"):
        cfg["cosmology"] = "WMAP9"  # custom cosmologies cannot be written to YAML (documented)
    edges = gen.binning_edges_reference(cfg, cfg["cosmology"])
    scene = draw(gen.scene_case(theta, edges, 3, need_z=(0, 1, 2), min_patches=1, max_patches=4, max_per_patch=4))
    case.update(cfg=cfg, centers=scene["centers"], cats=scene["cats"], auto=draw(st.booleans()))
    case["chunksize"] = draw(st.sampled_from([None, 1, 3, 7]))
    case["source"] = draw(st.sampled_from(["dataframe", "dataframe", "hdf5"]))
    # patch ids only for single-catalog workloads: with ids the centres are per-catalog means,
    # which need not be aligned between different catalogs (refused by design, see C12)
    case["patch_mode"] = draw(st.sampled_from(["centers", "centers", "ids"])) if kind in ("create",) else "centers"
    if case["patch_mode"] == "ids":
        from vlib import pipeline as pl

        cen = np.array(scene["centers"], float)
        cxyz = pl.to_xyz(cen[:, 0], cen[:, 1])
        for cat in case["cats"]:
            cat["pid"] = pl.nearest_centre(pl.to_xyz(cat["ra"], cat["dec"]), cxyz)[0].tolist()
    return case


def expected_records(cat):
    cols = [np.asarray(cat["ra"], float), np.asarray(cat["dec"], float)]
    if cat.get("w") is not None:
        cols.append(np.asarray(cat["w"], float))
    if cat.get("z") is not None:
        cols.append(np.asarray(cat["z"], float))
    return sources.multiset(np.column_stack(cols))


def same_value(a, b):
    """structural equality; floats to rtol 1e-9 (record order inside a patch, and with it the
    summation order, legitimately depends on message arrival), NaN equal to NaN"""
    if isinstance(a, dict) and isinstance(b, dict):
        return a.keys() == b.keys() and all(same_value(a[k], b[k]) for k in a)
    if isinstance(a, (list, tuple)) and isinstance(b, (list, tuple)):
        if len(a) != len(b):
            return False
        try:  # numeric arrays: tolerance relative to the magnitude of the whole array
            x, y = np.array(a, dtype=float), np.array(b, dtype=float)
            if x.shape == y.shape and x.dtype != object:
                scale = max(1.0, float(np.nanmax(np.abs(y), initial=0.0))) if np.isfinite(y).any() else 1.0
                return bool(np.allclose(x, y, rtol=1e-9, atol=1e-12 * scale, equal_nan=True))
        except (TypeError, ValueError):
            pass
        return all(same_value(x, y) for x, y in zip(a, b))
    if isinstance(a, float) or isinstance(b, float):
        if a is None or b is None or isinstance(a, (str, bool)) or isinstance(b, (str, bool)):
            return a == b
        if np.isnan(a) and np.isnan(b):
            return True
        return bool(np.isclose(a, b, rtol=1e-9, atol=0.0))
    return a == b


def run_case(case):
    from vlib import mpi_workloads as wl
    from yaw import Catalog

    kind = case["kind"]
    mw = case["max_workers"]
    ck = Checker(classes=[f"kind:{kind}", f"size:{case['size']}", f"max_workers:{'none' if mw is None else ('1' if mw == 1 else ('2' if mw == 2 else '>2'))}"])
    with Scratch() as tmp:
        (tmp / "mpi").mkdir()
        (tmp / "plain").mkdir()
        try:
            resp = client().run(case, tmp / "mpi")
        except Exception as e:  # noqa
            raise HarnessError(f"simulation server failed: {e}")
        stats = resp.get("stats", {})
        ck.nontrivial = case["size"] >= 3 and (stats.get("wildcard_multi", 0) > 0 or stats.get("overtakes", 0) > 0)
        if stats.get("wildcard_multi", 0) > 0:
            ck.cls("wildcard-with>=2-senders")
        if stats.get("overtakes", 0) > 0:
            ck.cls("message-overtaken")
        if case.get("progress"):
            ck.cls("progress-display-on")
        if case.get("nodes") and len(set(case["nodes"])) > 1:
            ck.cls("ranks-on-several-nodes")
        if stats.get("sync_sends", 0) > 0 and stats.get("eager_sends", 0) > 0:
            ck.cls("mixed-send-modes")
        outcome = resp["outcome"]
        ck.cls(f"outcome:{outcome}")
        creates = kind != "iter"
        if outcome == "server-died":
            ck.fail(f"interpreter-died:{kind}", resp["detail"])
            return ck.results()
        if outcome == "exception":
            errs = resp["errors"]
            msgs = {e["msg"] for e in errs.values()}
            # (the simulation stops at the first failing rank; every rank takes the same branch)
            if creates and all("at least two workers" in m for m in msgs):
                ck.cls("refused:needs-two-workers(not judged)")
                return ck.results()
            nodes = case.get("nodes")
            if creates and nodes and sum(1 for n in nodes if n == nodes[0]) < 2:
                # catalog creation runs on the root's node only and needs a reader and a writer
                # there: with the root alone on its node every rank raises (fail-stop, not judged)
                ck.cls("refused:root-alone-on-its-node(not judged)")
                return ck.results()
            first = errs[sorted(errs)[0]]
            ck.fail(f"exception:{kind}|{first['type']}@{first['frame']}", f"{resp['detail']}; ranks with errors: {sorted(errs)}")
            return ck.results()
        if outcome != "ok":
            ck.fail(f"{outcome}:{kind}:max_workers={'1' if mw == 1 else 'other'}", f"{resp['detail']} | last events: {resp.get('trace_tail', [])[-8:]}")
            return ck.results()
        ck.expect(resp["ranks_returned"] == list(range(case["size"])), f"ranks-missing:{kind}", str(resp["ranks_returned"]))
        if resp["leftovers"]:
            ck.fail(f"unmatched-message:{kind}", f"{resp['leftovers'][:4]} | last events: {resp.get('trace_tail', [])[-8:]}")
        # ---- single-process reference
        try:
            import contextlib

            from props.c02_creation import quiet_stderr

            with quiet_stderr() if case.get("progress") else contextlib.nullcontext():
                plain = wl.workload(case, str(tmp / "plain"))
        except Exception as e:  # noqa
            ck.fail(f"plain-run|{exc_sig(e)}", f"{type(e).__name__}: {e}")
            return ck.results()
        root = resp["root"]
        if kind == "iter":
            ck.expect(resp["exec_log"] == sorted(case["items"]), f"tasks-not-executed-exactly-once:max_workers={'1' if mw == 1 else 'other'}", f"executed {resp['exec_log']} for items {sorted(case['items'])}")
        if root is None:
            ck.fail(f"root-returned-nothing:{kind}", "")
            return ck.results()
        import json

        plain = json.loads(json.dumps(plain))
        # derived estimates are undefined where the (leave-one-out) denominator is zero in exact
        # arithmetic: there it is a rounding residue that depends on the summation order
        mask = {}
        if "den_data" in plain and root.get("den_data") is not None:
            dd, ds = np.array(plain["den_data"], float), np.array(plain["den_samples"], float)
            rd_, rs_ = np.array(root["den_data"], float), np.array(root["den_samples"], float)
            if dd.shape == rd_.shape and ds.shape == rs_.shape:
                floor = 1e-9 * max(np.nanmax(np.abs(dd), initial=0.0), np.nanmax(np.abs(ds), initial=0.0), 1e-300)
                mask["sample_data"] = (np.abs(dd) > floor) & (np.abs(rd_) > floor)
                mask["sample_samples"] = (np.abs(ds) > floor) & (np.abs(rs_) > floor)
                mask["io_corrdata_data"] = mask["sample_data"]
        for key in sorted(plain):
            if key in ("den_data", "den_samples"):
                continue
            if key in mask:
                a, b = np.array(root.get(key), float), np.array(plain[key], float)
                good = a.shape == b.shape and bool(np.all(np.isclose(a, b, rtol=1e-6, atol=1e-9, equal_nan=True) | ~mask[key]))
                if not good:
                    ck.fail(f"root-differs-from-single-process:{kind}:{key}:max_workers={'1' if mw == 1 else 'other'}", f"{key}: root {a.tolist()} vs single-process {b.tolist()}")
                    break
                continue
            if not same_value(root.get(key), plain[key]):
                ck.fail(f"root-differs-from-single-process:{kind}:{key}:max_workers={'1' if mw == 1 else 'other'}", f"{key}: root {str(root.get(key))[:300]} vs single-process {str(plain[key])[:300]}")
                break
        # ---- records on disk
        if creates:
            names = ["ref"] if kind == "create" else ["ref", "unk", "rand"]
            for name, cat in zip(names, case["cats"]):
                try:
                    st_ = sources.stored_records(Catalog(tmp / "mpi" / name, max_workers=1))
                    allrec = np.concatenate(list(st_.values())) if st_ else np.empty((0, 2))
                    exp = expected_records(cat)
                    got = sources.multiset(allrec)
                    if got != exp:
                        ck.fail(f"records-lost-or-changed:{kind}", f"{name}: {len(got)} stored vs {len(exp)} input records | last events: {resp.get('trace_tail', [])[-10:]}")
                        break
                except Exception as e:  # noqa
                    ck.fail(f"catalog-unreadable:{kind}|{exc_sig(e)}", f"{type(e).__name__}: {e}")
                    break
    return ck.results()


def components():
    return [Component("mpi", case_strategy(), run_case, quick=400, thorough=10_000, shards=16, quick_shards=8)]
