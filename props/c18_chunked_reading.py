"""
C18 — input is consumed in bounded chunks, each record once per pass.

Instrumentation without touching the repository: a data-frame-like recording
object handed to Catalog.from_dataframe, recording proxies bound to the names
``h5py`` / ``parquet`` inside yaw.catalog.readers (in the harness process), a
recording BoxRandoms subclass, and a wrapper around DataChunkReader.__next__
that logs the length of every emitted chunk.
"""

from __future__ import annotations

import types

import numpy as np
from hypothesis import strategies as st

from vlib import gen, schedpool, sources
from vlib.runner import Checker, Component, Result, Scratch, exc_sig

PROPERTY = "C18"
LEVEL = "exploration"
RULE = (
    "Hypothesis draws an input length n (1..200), a chunk size (biased to n = k*c+{-1,0,1}, also > n), a source kind (recording data frame, "
    "HDF5, Parquet with row groups smaller/larger than the chunk, FITS, random generator), a patch mode (centres / ids / patch_num) and a "
    "worker count {1,3}. Oracle over the request log: per pass the requested slices are consecutive, non-overlapping, each <= chunk size, "
    "start at 0 and cover [0,n) exactly once; passes == 1, or 2 exactly when patch centres are generated; every emitted chunk <= chunk size; "
    "Parquet: every row group requested once per pass, in order, never more than chunk size + one row group buffered. "
    "Non-trivial: n > 2*chunk size; distinct = case digest."
    ' Extensions: inputs up to 600 records and explicit probe sizes (sparse to whole input) when centres are generated.'
)
ASSUMPTIONS = [
    "FITS is checked at the emitted-chunk level only (astropy's memory-mapped column access is not observable from Python)",
    "Parquet's unit of I/O is the row group: a row group larger than the chunk size is necessarily read whole",
]


@st.composite
def case_strategy(draw):
    from props.c02_creation import chunksize_for

    n = draw(st.one_of(st.integers(1, 200), st.integers(1, 200), st.integers(200, 600)))
    source = draw(st.sampled_from(["frame", "frame", "hdf5", "parquet", "fits", "random"]))
    mode = draw(st.sampled_from(["centers", "ids", "num"])) if source != "random" else draw(st.sampled_from(["centers", "num"]))
    if mode == "num" and n < 30:
        mode = "centers"
    c = draw(chunksize_for(n))
    case = {"n": n, "chunksize": c, "source": source, "mode": mode, "workers": draw(st.sampled_from([1, 1, 3])), "tape": draw(st.lists(st.integers(0, 5), max_size=10))}
    case["ra"] = draw(st.lists(gen.floats(10.0, 30.0), min_size=n, max_size=n))
    case["dec"] = draw(st.lists(gen.floats(-10.0, 10.0), min_size=n, max_size=n))
    case["row_group"] = draw(st.sampled_from([1, 2, 5, max(1, c // 2), c, c + 3, n])) if source == "parquet" else None
    # storage layout of an HDF5 input: contiguous, or chunked with a storage chunk smaller / larger than the read chunk
    case["h5chunks"] = draw(st.sampled_from([None, None, 1, max(1, c // 2), c + 1, 3 * c + 1, n])) if source == "hdf5" else None
    if mode == "ids":
        case["pid"] = draw(st.lists(st.integers(0, 2), min_size=n, max_size=n))
    # patch_num next to centres or a patch-index column is documented to be ignored (no extra pass)
    case["redundant_patch_num"] = mode != "num" and source != "random" and draw(st.sampled_from([False, False, True]))
    if source == "random":
        case["probe"] = draw(st.integers(min(n, 30), n)) if mode == "num" else None
    elif mode == "num":
        # size of the sample from which centres are generated: default, or explicit from sparse
        # (a small fraction of the input) to the whole input
        case["probe"] = draw(st.one_of(st.none(), st.integers(20, max(20, n // 10)), st.integers(20, max(20, n))))
    return case


class DatasetProxy:
    def __init__(self, ds, name, log):
        self._ds, self._name, self._log = ds, name, log

    def __len__(self):
        return len(self._ds)

    @property
    def shape(self):
        return self._ds.shape

    def __getattr__(self, name):
        # everything that is not a data request (dtype, chunks, attrs, ...) is answered by the real
        # dataset: the proxy must not make metadata look unavailable
        if name.startswith("_"):
            raise AttributeError(name)
        return getattr(self._ds, name)

    def __getitem__(self, item):
        if isinstance(item, slice):
            start, stop, step = item.indices(len(self._ds))
            self._log.append((self._name, start, max(start, stop)))
        else:
            self._log.append((self._name, "non-slice", repr(item)))
        return self._ds[item]


class H5FileProxy:
    def __init__(self, f, log):
        self._f, self._log = f, log

    def __getitem__(self, name):
        return DatasetProxy(self._f[name], name, self._log)

    def __getattr__(self, name):
        if name.startswith("_"):
            raise AttributeError(name)
        return getattr(self._f, name)

    def close(self):
        self._f.close()


class ParquetFileProxy:
    def __init__(self, pf, log):
        self._pf, self._log = pf, log
        self.metadata = pf.metadata

    def __getattr__(self, name):
        if name.startswith("_"):
            raise AttributeError(name)
        return getattr(self._pf, name)

    def read_row_group(self, idx, columns=None, **kw):
        self._log.append(("row_group", idx))
        return self._pf.read_row_group(idx, columns, **kw)

    def close(self):
        try:
            self._pf.close()
        except Exception:  # noqa
            pass


def split_passes(slices):
    """split a list of (start, stop) into passes (a new pass starts at 0)"""
    passes, cur = [], []
    for s in slices:
        if s[0] == 0 and cur:
            passes.append(cur)
            cur = []
        cur.append(s)
    if cur:
        passes.append(cur)
    return passes


def check_pass(ck, p, n, c, tag):
    pos = 0
    for start, stop in p:
        if start != pos:
            ck.fail(f"{tag}:slices-not-consecutive", f"expected start {pos}, got [{start}:{stop}] in {p[:8]}")
            return
        if stop - start > c:
            ck.fail(f"{tag}:slice-longer-than-chunksize", f"[{start}:{stop}] with chunksize {c}")
            return
        pos = stop
    ck.expect(pos == n, f"{tag}:pass-does-not-cover-input", f"covered [0,{pos}) of {n}: {p[:8]}")


def run_case(case):
    import h5py
    import pandas as pd
    from pyarrow import parquet

    import yaw.catalog.readers as readers
    from yaw import AngularCoordinates, Catalog
    from yaw.randoms import BoxRandoms

    n, c = case["n"], case["chunksize"]
    ck = Checker(n > 2 * c, classes=[f"source:{case['source']}", f"mode:{case['mode']}", f"workers:{case['workers']}"])
    log = []
    emitted = []
    cols = {"ra": np.array(case["ra"]), "dec": np.array(case["dec"])}
    kw = dict(ra_name="ra", dec_name="dec", chunksize=c, max_workers=case["workers"])
    if case["mode"] == "ids":
        cols["pid"] = np.array(case["pid"], dtype=np.int64)
        kw["patch_name"] = "pid"
    elif case["mode"] == "centers":
        kw["patch_centers"] = AngularCoordinates(np.deg2rad([[case["ra"][0], case["dec"][0]]]))
    else:
        kw["patch_num"] = 2
    if case.get("redundant_patch_num"):
        kw["patch_num"] = 3
        ck.cls("patch_num-given-but-overridden")
    if case["mode"] == "num":
        if case["source"] != "random" and case.get("probe") is not None:
            kw["probe_size"] = case["probe"]
            ck.cls("explicit-probe-size" + (":sparse" if case["probe"] <= n // 10 else ""))

    saved = (readers.h5py, readers.parquet, readers.DataChunkReader.__next__)

    def recording_next(self):
        chunk = saved[2](self)
        if chunk is not None:
            emitted.append((len(chunk), self.chunksize))
        return chunk

    readers.DataChunkReader.__next__ = recording_next
    readers.h5py = types.SimpleNamespace(File=lambda path, mode="r": H5FileProxy(h5py.File(path, mode=mode), log))
    readers.parquet = types.SimpleNamespace(ParquetFile=lambda path: ParquetFileProxy(parquet.ParquetFile(path), log))
    fake_ctx = schedpool.Patched(case["tape"]) if case["workers"] > 1 else None
    try:
        with Scratch() as tmp:
            if fake_ctx:
                fake_ctx.__enter__()
            try:
                if case["source"] == "frame":
                    frame = sources.RecordingFrame(cols, log)
                    Catalog.from_dataframe(tmp / "c", frame, **kw)
                elif case["source"] == "random":
                    draws = []

                    class Rec(BoxRandoms):
                        def reseed(self, seed=None):
                            draws.append("reseed")
                            return super().reseed(seed)

                        def __call__(self, probe_size):
                            draws.append(int(probe_size))
                            return super().__call__(probe_size)

                    g = Rec(10, 30, -10, 10, seed=7)
                    kw.pop("ra_name"), kw.pop("dec_name")
                    if case["mode"] == "num":
                        kw["probe_size"] = case["probe"]
                    else:
                        kw["patch_centers"] = AngularCoordinates(np.deg2rad([[20.0, 0.0]]))
                    Catalog.from_random(tmp / "c", g, n, **kw)
                else:
                    table = {"ra": case["ra"], "dec": case["dec"], "w": None, "z": None, "pid": case.get("pid"), "dtypes": {}}
                    if case.get("h5chunks"):
                        path, _, _ = sources.write_source("hdf5", table, tmp, layout={"chunks": case["h5chunks"], **({"compression": "gzip"} if case["h5chunks"] % 2 else {})})
                        ck.cls("hdf5-chunked-layout")
                    else:
                        path = sources.write_source(case["source"], table, tmp, row_group_size=case["row_group"])
                    Catalog.from_file(tmp / "c", path, **kw)
            finally:
                if fake_ctx:
                    fake_ctx.__exit__(None, None, None)
    except Exception as e:  # noqa
        if case["mode"] == "num" and ("contains no data" in str(e) or "writer process failed" in str(e) or "infs or NaNs" in str(e)):
            return Result.discard("kmeans-degenerate")
        ck.fail(f"create|{exc_sig(e)}", f"{type(e).__name__}: {e}")
        return ck.results()
    finally:
        readers.h5py, readers.parquet, readers.DataChunkReader.__next__ = saved

    expect_passes = 2 if case["mode"] == "num" else 1
    # ---- emitted chunks
    ck.expect(all(length <= cs for length, cs in emitted), "emitted-chunk-longer-than-chunksize", f"{emitted[:6]} (requested chunksize {c})")
    ck.expect(all(cs == c or cs == min(c, n) for _, cs in emitted), "reader-chunksize-differs-from-configured", f"{emitted[:3]} vs {c}")
    if case["source"] != "random":
        tot = sum(length for length, _ in emitted)
        ck.expect(tot == expect_passes * n, "emitted-records-per-pass", f"{tot} records emitted in total for n={n}, {expect_passes} pass(es)")

    if case["source"] == "frame":
        whole = [e for e in log if e[0] == "column-of-whole-frame"]
        ck.expect(not whole or n <= c, "frame:whole-input-requested-at-once", f"{whole[:2]} for n={n} > chunksize {c}")
        rows = [(e[1], e[2]) for e in log if e[0] == "rows"]
        rows = [r for r in rows if r[1] > r[0] or r[0] < n]
        passes = split_passes(rows)
        ck.expect(len(passes) == expect_passes, "frame:number-of-passes", f"{len(passes)} passes, expected {expect_passes}: {rows[:10]}")
        for p in passes:
            check_pass(ck, p, n, c, "frame")
    elif case["source"] == "hdf5":
        bycol = {}
        for e in log:
            if e[1] == "non-slice":
                ck.fail("hdf5:non-slice-access", str(e))
                continue
            bycol.setdefault(e[0], []).append((e[1], e[2]))
        ck.expect(set(bycol) == set(cols), "hdf5:columns-read", f"{sorted(bycol)} vs {sorted(cols)}")
        for name, sl in bycol.items():
            passes = split_passes(sl)
            ck.expect(len(passes) == expect_passes, "hdf5:number-of-passes", f"{name}: {len(passes)} passes, expected {expect_passes}")
            for p in passes:
                check_pass(ck, p, n, c, "hdf5")
    elif case["source"] == "parquet":
        groups = [e[1] for e in log if e[0] == "row_group"]
        ngroups = int(np.ceil(n / case["row_group"]))
        valid = [g for g in groups if g < ngroups]  # the reader probes one index past the end to detect EOF
        exp = list(range(ngroups)) * expect_passes
        ck.expect(valid == exp, "parquet:row-groups-not-once-per-pass-in-order", f"{groups[:12]} vs {exp[:12]}")
        ck.expect(all(g <= ngroups for g in groups), "parquet:row-group-index-out-of-range", f"{groups}")
    elif case["source"] == "random":
        # draws: list of 'reseed' markers and requested sizes; the final pass is after the last reseed
        last = len(draws) - 1 - draws[::-1].index("reseed") if "reseed" in draws else -1
        final = [d for d in draws[last + 1 :]]
        ck.expect(sum(final) == n, "random:final-pass-total", f"requested {final} for n={n}")
        ck.expect(all(d <= c for d in final), "random:request-longer-than-chunksize", f"{final[:6]} chunksize {c}")
        if case["mode"] == "num":
            before = [d for d in draws[: last + 1] if d != "reseed"]
            ck.expect(sum(before) <= max(n, case["probe"]), "random:probe-larger-than-requested", f"{before}")
    return ck.results()


def components():
    return [Component("requests", case_strategy(), run_case, quick=1500, thorough=50_000)]
