"""
C05 — results do not depend on worker count or completion order (multiprocessing).

The harness owns the schedule: yaw's ``multiprocessing`` is replaced by
vlib.schedpool, whose Pool yields results in a completion order drawn by
Hypothesis (only orders a real w-worker pool can produce).  Oracle: bit-identical
to the sequential path on equal caches.
"""

from __future__ import annotations

import shutil

import numpy as np
from hypothesis import strategies as st

from vlib import gen, schedpool
from vlib import pipeline as pl
from vlib.runner import Checker, Component, Result, Scratch, exc_sig

PROPERTY = "C05"
LEVEL = "exploration"
RULE = (
    "Hypothesis draws cached catalogs (sky scene, 2-6 patches), a configuration and, per parallel entry point (Catalog(cache) incl. "
    "metadata computation, build_trees, autocorrelate / crosscorrelate, HistData.from_catalog), a worker count w in 1..tasks+2 and a "
    "schedule tape that resolves which running task finishes next. Oracle: results bit-identical (counts, weight sums, samples and their "
    "order, per-bin tree sizes) to the sequential path on byte-identical copies of the caches. A subset runs with real multiprocessing "
    "(isolated). Non-trivial: >=3 tasks, w>=2 and a non-identity completion order; distinct = case digest."
)
ASSUMPTIONS = [
    "the shim produces exactly the completion orders of a w-worker pool with in-order dispatch and chunksize 1",
    "pickled tree files are not compared byte-wise (not part of the claim), their per-bin content is",
]


@st.composite
def case_strategy(draw):
    mode = draw(st.sampled_from(["auto", "cross"]))
    cfg, theta_max = draw(gen.config_case(max_bins=3, max_scales=2))
    edges = gen.binning_edges_reference(cfg, cfg["cosmology"])
    if mode == "auto":
        scene = draw(gen.scene_case(theta_max, edges, 2, need_z=(0, 1), min_patches=2, max_patches=6, max_per_patch=5))
        opts = {"count_rr": draw(st.booleans())}
    else:
        scene = draw(gen.scene_case(theta_max, edges, 3, need_z=(0,), min_patches=2, max_patches=6, max_per_patch=5))
        opts = {"rands": "unk"}
    K = len(scene["centers"])
    sched = {}
    for ep in ("load", "trees", "measure", "hist"):
        sched[ep] = {"workers": draw(st.sampled_from([2, 3, 4, K, K + 2, 16])), "tape": draw(st.lists(st.integers(0, 15), min_size=0, max_size=40))}
    return {"mode": mode, "cfg": cfg, "scene": scene, "opts": opts, "sched": sched, "real_pool": draw(st.integers(0, 7)) == 0, "real_pool_prior": draw(st.booleans()), "progress": draw(st.sampled_from([False, False, True]))}


def cf_arrays(cfs):
    out = []
    for cf in cfs:
        d = {}
        for kind in ("dd", "dr", "rd", "rr"):
            m = getattr(cf, kind)
            if m is not None:
                d[kind] = (np.asarray(m.counts.counts).copy(), np.asarray(m.sum_weights.sum_weights1).copy(), np.asarray(m.sum_weights.sum_weights2).copy())
        with np.errstate(all="ignore"):
            try:
                s = cf.sample()
                d["sample"] = (np.asarray(s.data), np.asarray(s.samples))
            except TypeError:
                pass
        out.append(d)
    return out


def same(a, b):
    if len(a) != len(b):
        return False, "number of scales"
    for i, (x, y) in enumerate(zip(a, b)):
        if set(x) != set(y):
            return False, f"members {sorted(x)} vs {sorted(y)}"
        for k in x:
            for j, (u, v) in enumerate(zip(x[k], y[k])):
                if u.shape != v.shape or not np.array_equal(u, v, equal_nan=True):
                    what = ["counts", "sum_weights1", "sum_weights2"][j] if k != "sample" else ["data", "samples"][j]
                    return False, f"scale {i} {k}.{what}"
    return True, ""


def tree_summary(catalog):
    from yaw.catalog.trees import BinnedTrees

    out = {}
    for pid, patch in catalog.items():
        bt = BinnedTrees(patch)
        trees = bt.trees
        trees = list(trees) if bt.is_binned() else [trees]
        out[pid] = (None if bt.binning is None else (np.asarray(bt.binning.edges).tolist(), str(bt.binning.closed)), [(t.num_records, t.sum_weights) for t in trees])
    return out


def run_measure(case, cfg, cats, max_workers):
    import contextlib

    import yaw
    from props.c02_creation import quiet_stderr

    progress = bool(case.get("progress")) and max_workers != 1  # the progress display wraps the result iterator
    with quiet_stderr() if progress else contextlib.nullcontext():
        if case["mode"] == "auto":
            return yaw.autocorrelate(cfg, cats[0], cats[1], count_rr=case["opts"]["count_rr"], max_workers=max_workers, progress=progress)
        return yaw.crosscorrelate(cfg, cats[0], cats[1], unk_rand=cats[2], max_workers=max_workers, progress=progress)


def run_case(case):
    from yaw import Catalog
    from yaw.redshifts import HistData

    centers = case["scene"]["centers"]
    K = len(centers)
    sched = case["sched"]
    ck = Checker(classes=[f"mode:{case['mode']}", f"patches:{K}"])
    with Scratch() as tmp:
        try:
            cfg = pl.make_config(case["cfg"])
            ncat = len(case["scene"]["cats"])
            (tmp / "orig").mkdir()
            for i, c in enumerate(case["scene"]["cats"]):
                pl.make_catalog(tmp / "orig" / f"c{i}", c, centers)
            # three byte-identical copies: A sequential, B parallel, (meta removed in both for the loading test)
            for name in ("A", "B", "LA", "LB"):
                shutil.copytree(tmp / "orig", tmp / name)
            # separate copies without patch metadata: loading them recomputes it (in parallel for LB)
            for name in ("LA", "LB"):
                for meta in (tmp / name).glob("*/patch_*/meta.yml"):
                    meta.unlink()
        except Exception as e:  # noqa
            ck.fail(f"setup|{exc_sig(e)}", f"{type(e).__name__}: {e}")
            return ck.results()

        nontrivial = False

        def parallel(ep, fn):
            nonlocal nontrivial
            s = sched[ep]
            with schedpool.Patched(s["tape"]) as fake:
                res = fn(s["workers"])
            if fake.stats.max_tasks >= 3 and s["workers"] >= 2 and any(o != sorted(o) for o in fake.stats.orders):
                nontrivial = True
                ck.cls(f"{ep}:non-identity-order")
            return res

        try:
            # ---- loading (computes patch metadata since meta.yml was removed)
            seq_cats = [Catalog(tmp / "A" / f"c{i}", max_workers=1) for i in range(ncat)]
            par_cats = [Catalog(tmp / "B" / f"c{i}", max_workers=1) for i in range(ncat)]
            la = [Catalog(tmp / "LA" / f"c{i}", max_workers=1) for i in range(ncat)]
            lb = parallel("load", lambda w: [Catalog(tmp / "LB" / f"c{i}", max_workers=w) for i in range(ncat)])
            for a, b in zip(la, lb):
                okl = (
                    list(a.keys()) == list(b.keys())
                    and np.array_equal(a.get_centers().data, b.get_centers().data)
                    and np.array_equal(a.get_radii().data, b.get_radii().data)
                    and a.get_num_records() == b.get_num_records()
                    and a.get_sum_weights() == b.get_sum_weights()
                )
                ck.expect(okl, "load:differs-from-sequential", f"workers={sched['load']['workers']}")
                ck.expect(list(b._patches.keys()) == sorted(b._patches.keys()) or list(b.keys()) == sorted(b.keys()), "load:patch-order")
            # ---- tree building
            edges = np.asarray(cfg.binning.edges)
            closed = str(cfg.binning.closed)
            seq_cats[0].build_trees(edges, closed=closed, max_workers=1)
            parallel("trees", lambda w: par_cats[0].build_trees(edges, closed=closed, max_workers=w))
            ck.expect(tree_summary(seq_cats[0]) == tree_summary(par_cats[0]), "trees:differs-from-sequential", f"workers={sched['trees']['workers']}")
            # ---- pair counting
            seq = cf_arrays(run_measure(case, cfg, seq_cats, 1))
            par = cf_arrays(parallel("measure", lambda w: run_measure(case, cfg, par_cats, w)))
            good, why = same(seq, par)
            ck.expect(good, "measure:differs-from-sequential", f"{why}; workers={sched['measure']['workers']}")
            # ---- histogram
            hs = HistData.from_catalog(seq_cats[0], cfg, max_workers=1)
            hp = parallel("hist", lambda w: HistData.from_catalog(par_cats[0], cfg, max_workers=w))
            ck.expect(np.array_equal(hs.data, hp.data) and np.array_equal(hs.samples, hp.samples), "hist:differs-from-sequential", f"workers={sched['hist']['workers']}")
            # ---- real multiprocessing cross-check (uncontrolled schedule)
            if case["real_pool"]:
                from vlib.isolate import run_isolated

                def job():
                    import yaw.utils.parallel as par_

                    par_._num_processes = lambda: 64
                    cats = [Catalog(tmp / "B" / f"c{i}", max_workers=4) for i in range(ncat)]
                    if case.get("real_pool_prior"):
                        # the same process has used these caches before, sequentially and with another
                        # binning (state kept by the main process must not reach the forked workers)
                        e = [float(x) for x in edges]
                        other = [e[0]] + [a + 0.37 * (b - a) for a, b in zip(e[1:-1], e[2:])] + [e[-1]] if len(e) > 2 else [e[0], 0.5 * (e[0] + e[1]), e[1]]
                        prior_cfg = cfg.modify(edges=other)
                        run_measure(case, prior_cfg, cats, 1)
                    res = cf_arrays(run_measure(case, cfg, cats, 4))
                    h = HistData.from_catalog(cats[0], cfg, max_workers=3)
                    return res, np.asarray(h.data), np.asarray(h.samples)

                status, payload = run_isolated(job, bound=30.0)
                ck.cls(f"real-pool:{status}" + (":after-sequential-use-with-other-binning" if case.get("real_pool_prior") else ""))
                if status == "ok":
                    res, hd, hsamp = payload
                    good, why = same(seq, res)
                    ck.expect(good, "real-pool:measure-differs-from-sequential", why)
                    ck.expect(np.array_equal(hs.data, hd) and np.array_equal(hs.samples, hsamp), "real-pool:hist-differs-from-sequential")
                elif status == "hung":
                    ck.fail("real-pool:hang", str(payload))
                elif status == "exc":
                    ck.fail(f"real-pool|exc:{payload[0]}@{payload[3]}", payload[1])
        except Exception as e:  # noqa
            ck.fail(f"run|{exc_sig(e)}", f"{type(e).__name__}: {e}")
        ck.nontrivial = nontrivial
    return ck.results()


def components():
    return [Component("schedules", case_strategy(), run_case, quick=320, thorough=10_000)]
