"""
C13 — results are invariant under rotations, row order, patch labels and weight
scale; raw pair counts are additive under splitting a catalog.

Metamorphic testing: a base case (C01 generator) and one transformation; both
are run through the public pipeline and compared with the known relation.
"""

from __future__ import annotations

import math

import numpy as np
from hypothesis import strategies as st

from props import c01_paircounts as c01
from vlib import gen
from vlib import pipeline as pl
from vlib.runner import Checker, Component, Result, Scratch, exc_sig

PROPERTY = "C13"
LEVEL = "exploration"
RULE = (
    "Hypothesis draws a base case (configuration + sky scene as for C01, auto or cross with randoms) and one transformation: a rigid rotation "
    "(to the north/south pole, across RA=0, or uniform) of all catalogs and centres; a row permutation of every catalog; a permutation of the "
    "centre list; multiplication of all weights of one catalog by a positive constant (powers of two and arbitrary); a split of the reference or "
    "unknown catalog into two parts on the same centres. Oracle: raw counts and weight sums related as the transformation dictates, and "
    "sample().data / samples / covariance / RedshiftData equal up to rounding (samples permuted with the centres). Cases with a pair inside "
    "the ambiguity band of a scale edge or an object within 1e-12 (squared chord) of equidistant from two centres are discarded before the second run. "
    "Non-trivial: base DD counts non-zero in a cross-patch cell (and rotation angle > 1 degree for rotations); distinct = case digest."
    " Extensions: base cases inherit C01's lattice scenes and library-derived centres (first catalog from a patch-index column, others with patch_centers=<that catalog>)."
)
ASSUMPTIONS = [
    "downstream tolerances: 1e-7 of the largest estimator term over the denominator (jackknife subtraction amplifies rounding), bins with non-finite terms not judged",
    "the discard rate is reported in the evidence (classes discard:*)",
]


@st.composite
def case_strategy(draw):
    base = draw(c01.case_strategy())
    kind = draw(st.sampled_from(["rotate", "rotate", "rows", "centres", "weights", "split"]))
    t = {"kind": kind}
    ncat = len(base["scene"]["cats"])
    K = len(base["scene"]["centers"])
    if kind == "rotate":
        t["target"] = draw(st.sampled_from(["north", "south", "seam", "random"]))
        t["point"] = [draw(gen.floats(0.0, 2 * math.pi - 1e-9)), math.asin(draw(gen.floats(-1.0, 1.0)))]
        t["spin"] = draw(gen.floats(0.0, 2 * math.pi))
    elif kind == "rows":
        t["perms"] = [list(draw(st.permutations(list(range(len(c["ra"])))))) for c in base["scene"]["cats"]]
    elif kind == "centres":
        t["perm"] = list(draw(st.permutations(list(range(K)))))
    elif kind == "weights":
        t["cat"] = draw(st.integers(0, ncat - 1))
        t["factor"] = draw(st.one_of(st.sampled_from([2.0, 0.5, 4.0, 0.125, 2.0**-56, 2.0**-30, 2.0**40]), gen.floats(1e-3, 1e3)))
    else:
        t["cat"] = draw(st.integers(0, 1)) if base["mode"] == "cross" else 0
        t["mask_seed"] = draw(st.lists(st.booleans(), min_size=8, max_size=8))
    return {"base": base, "t": t}


def rotation_matrix(base_dir, t):
    """rotation that moves base_dir onto the target, followed by a spin about the target"""
    b = pl.to_xyz(*base_dir)[0]
    tgt = {"north": (0.0, math.pi / 2), "south": (0.0, -math.pi / 2), "seam": (0.0, 0.1)}.get(t["target"], tuple(t["point"]))
    g = pl.to_xyz(*tgt)[0]
    v = np.cross(b, g)
    s, c = np.linalg.norm(v), float(b @ g)
    if s < 1e-12:
        R = np.eye(3) if c > 0 else np.diag([1.0, -1.0, -1.0]) if abs(b[0]) > 0.5 else np.diag([-1.0, 1.0, -1.0])
        if c < 0 and not np.allclose(R @ b, g, atol=1e-9):
            # generic 180 degree rotation about an axis perpendicular to b
            a = np.cross(b, [1.0, 0, 0] if abs(b[0]) < 0.9 else [0, 1.0, 0])
            a /= np.linalg.norm(a)
            R = 2 * np.outer(a, a) - np.eye(3)
    else:
        vx = np.array([[0, -v[2], v[1]], [v[2], 0, -v[0]], [-v[1], v[0], 0]])
        R = np.eye(3) + vx + vx @ vx * ((1 - c) / (s * s))
    k = g
    kx = np.array([[0, -k[2], k[1]], [k[2], 0, -k[0]], [-k[1], k[0], 0]])
    S = np.eye(3) + math.sin(t["spin"]) * kx + (1 - math.cos(t["spin"])) * (kx @ kx)
    return S @ R, math.degrees(math.acos(max(-1.0, min(1.0, c))))


def rotate(ra, dec, R):
    v = pl.to_xyz(ra, dec) @ R.T
    v /= np.linalg.norm(v, axis=1)[:, None]
    ra2 = np.arctan2(v[:, 1], v[:, 0]) % (2 * math.pi)
    ra2[ra2 >= 2 * math.pi] = 0.0
    return ra2.tolist(), np.arcsin(np.clip(v[:, 2], -1, 1)).tolist()


def arrays(cfs):
    out = []
    for cf in cfs:
        d = {}
        for kind in ("dd", "dr", "rd", "rr"):
            m = getattr(cf, kind)
            if m is not None:
                d[kind] = {"counts": np.asarray(m.counts.counts, float).copy(), "w1": np.asarray(m.sum_weights.sum_weights1, float).copy(), "w2": np.asarray(m.sum_weights.sum_weights2, float).copy(), "auto": bool(m.auto)}
        out.append(d)
    return out


def downstream(cfs):
    """sample() outputs plus per-bin tolerance scale"""
    from yaw import RedshiftData

    out = []
    for cf in cfs:
        if cf.rr is not None and cf.dr is None:
            out.append(None)
            continue
        with np.errstate(all="ignore"):
            s = cf.sample()
            terms = {k: getattr(cf, k).sample_patch_sum() for k in ("dd", "dr", "rd", "rr") if getattr(cf, k) is not None}
            den = terms["rr"] if "rr" in terms else (terms["rd"] if "rd" in terms else terms["dr"])
            scale_d = sum(np.abs(t.data) for t in terms.values()) / np.abs(den.data)
            scale_s = sum(np.abs(t.samples) for t in terms.values()) / np.abs(den.samples)
            # a leave-one-out denominator that is zero in exact arithmetic shows up as a rounding
            # residue of the subtract-from-total shortcut (~1e-17): such bins are degenerate
            floor = 1e-9 * max(np.abs(den.data).max(), np.abs(den.samples).max(), 1e-300)
            nd, ns_ = pl.normalisation_ok(cf)
            finite_d = np.all([np.isfinite(t.data) for t in terms.values()], axis=0) & (np.abs(den.data) > floor) & nd
            finite_s = np.all([np.isfinite(t.samples) for t in terms.values()], axis=0) & (np.abs(den.samples) > floor) & ns_
            nz = RedshiftData.from_corrfuncs(cf) if not cf.auto else None
        out.append({"data": np.asarray(s.data), "samples": np.asarray(s.samples), "cov": np.asarray(s.covariance), "scale_d": scale_d, "scale_s": scale_s, "fin_d": finite_d, "fin_s": finite_s, "nz": None if nz is None else np.asarray(nz.data), "dz": np.asarray(cf.binning.dz)})
    return out


def transform_case(base, t):
    """returns (list of transformed base cases to measure, relation)"""
    import copy

    c = copy.deepcopy(base)
    cats = c["scene"]["cats"]
    if t["kind"] == "rotate":
        R, angle = rotation_matrix(base["scene"]["base"], t)
        for cat in cats:
            cat["ra"], cat["dec"] = rotate(cat["ra"], cat["dec"], R)
        cen = np.array(c["scene"]["centers"])
        ra, dec = rotate(cen[:, 0], cen[:, 1], R)
        c["scene"]["centers"] = np.column_stack([ra, dec]).tolist()
        return [c], {"angle": angle}
    if t["kind"] == "rows":
        for cat, perm in zip(cats, t["perms"]):
            for k in ("ra", "dec", "w", "z", "stale_pid"):
                if cat.get(k) is not None:
                    cat[k] = [cat[k][i] for i in perm]
        return [c], {}
    if t["kind"] == "centres":
        cen = c["scene"]["centers"]
        c["scene"]["centers"] = [cen[i] for i in t["perm"]]  # new patch j is old patch perm[j]
        return [c], {}
    if t["kind"] == "weights":
        cat = cats[t["cat"]]
        n = len(cat["ra"])
        w = np.ones(n) if cat["w"] is None else np.array(cat["w"], float)
        cat["w"] = (w * t["factor"]).tolist()
        return [c], {}
    if t["kind"] == "split":
        return None, {}
    raise ValueError(t["kind"])


def run_case(case):
    base, t = case["base"], case["t"]
    kind = t["kind"]
    ck = Checker(classes=[f"transform:{kind}", f"mode:{base['mode']}"])
    centers = np.array(base["scene"]["centers"], float)
    cxyz = pl.to_xyz(centers[:, 0], centers[:, 1])
    K = len(centers)
    samples = pl.scene_samples(base["scene"])
    if samples is None:
        return Result.discard("derived-centres-leave-a-patch-empty")
    if min(s.margin.min() for s in samples) < 1e-12:  # squared-chord margin; rotations perturb it by ~1e-16
        return Result.discard("near-equidistant-object")
    if base["scene"].get("derived"):
        ck.cls("centres-derived-from-first-catalog")
    with Scratch() as tmp:
        try:
            (tmp / "base").mkdir()
            cfg, cfs, _ = c01.measure(base, tmp / "base")
        except Exception as e:  # noqa
            ck.fail(f"base-measure|{exc_sig(e)}", f"{type(e).__name__}: {e}")
            return ck.results()
        # ambiguity guard (pairs near a scale edge may legitimately flip under rounding)
        edges = np.asarray(cfg.binning.edges, float)
        amin, amax = c01.angles_for(base, edges)
        cc = base["cfg"]
        for name, i1, i2, auto, binned2 in c01.products(base):
            _, amb, _, _ = pl.expected_counts(samples[i1], samples[i2], auto=auto, binned2=binned2, edges=edges, closed=str(cfg.binning.closed), ang_min=amin, ang_max=amax, npatch=K, rweight=cc["rweight"], resolution=cc["resolution"], amb_abs=1e-11, amb_rel=1e-8)
            if amb.any():
                return Result.discard("pair-near-scale-edge")
        A = arrays(cfs)
        DA = downstream(cfs)
        dd = A[0]["dd"]["counts"].sum(axis=0)
        cross_patch = (dd - np.diag(np.diag(dd))).sum() > 0
        weighted = any(c.get("w") is not None for c in base["scene"]["cats"]) or cc["rweight"] is not None
        rtol = 1e-9 if weighted or kind == "weights" else 0.0

        def close(x, y, scale=1.0):
            if x.shape != y.shape:
                return False
            if rtol == 0.0:
                return np.array_equal(x, y)
            return np.allclose(x, y, rtol=rtol, atol=1e-12 * scale)

        try:
            if kind == "split":
                # split one catalog (reference or unknown side) into two parts with >= 1 object per patch each
                ci = t["cat"] if base["mode"] == "cross" else 0
                if base["mode"] == "auto":
                    return Result.discard("split-needs-cross")
                if base["scene"].get("derived") and ci == 0:
                    return Result.discard("split-of-the-catalog-that-defines-the-centres")
                s = samples[ci]
                part = np.zeros(s.n, dtype=bool)
                for p in range(K):
                    idx = np.nonzero(s.patch == p)[0]
                    if len(idx) < 2:
                        return Result.discard("split-needs-2-objects-per-patch")
                    bits = (t["mask_seed"] * (len(idx) // 8 + 1))[: len(idx)]
                    bits[0], bits[1] = True, False
                    part[idx] = bits
                results = []
                for j, m in enumerate((part, ~part)):
                    import copy

                    c2 = copy.deepcopy(base)
                    cat = c2["scene"]["cats"][ci]
                    for k in ("ra", "dec", "w", "z", "stale_pid"):
                        if cat.get(k) is not None:
                            cat[k] = [v for v, keep in zip(cat[k], m) if keep]
                    (tmp / f"part{j}").mkdir()
                    _, cfs2, _ = c01.measure(c2, tmp / f"part{j}")
                    results.append(arrays(cfs2))
                ck.nontrivial = bool(cross_patch)
                members = ["dd", "dr"] if ci == 0 else ["dd", "rd"]
                for sidx in range(len(A)):
                    for mname in members:
                        if mname not in A[sidx]:
                            continue
                        tot = results[0][sidx][mname]["counts"] + results[1][sidx][mname]["counts"]
                        allscales = sum(float(np.abs(A[k][mname]["counts"]).max()) for k in range(len(A)) if mname in A[k])
                        ck.expect(close(tot, A[sidx][mname]["counts"], max(float(np.abs(tot).max()), allscales) + 1), f"split:counts-not-additive:{mname}", f"scale {sidx}")
                        wkey = "w1" if ci == 0 else "w2"
                        wt = results[0][sidx][mname][wkey] + results[1][sidx][mname][wkey]
                        ck.expect(np.allclose(wt, A[sidx][mname][wkey], rtol=1e-12, atol=0), f"split:weight-sums-not-additive:{mname}")
                return ck.results()

            tcases, rel = transform_case(base, t)
            (tmp / "t").mkdir()
            cfg2, cfs2, _ = c01.measure(tcases[0], tmp / "t")
        except pl.SceneUnusable:
            return Result.discard("derived-centres-leave-a-patch-empty")
        except Exception as e:  # noqa
            ck.fail(f"transformed-measure:{kind}|{exc_sig(e)}", f"{type(e).__name__}: {e}")
            return ck.results()
        B = arrays(cfs2)
        DB = downstream(cfs2)
        ck.nontrivial = bool(cross_patch) and (kind != "rotate" or rel["angle"] > 1.0)
        if kind == "rotate":
            ck.cls(f"target:{t['target']}")

        # ---- relation on raw counts
        perm = np.arange(K)
        if kind == "centres":
            perm = np.array(t["perm"])  # new j <- old perm[j]
        for sidx in range(len(A)):
            for mname, ma in A[sidx].items():
                mb = B[sidx].get(mname)
                if mb is None:
                    ck.fail(f"{kind}:members-differ", mname)
                    continue
                ca, cb = ma["counts"], mb["counts"]
                w1a, w2a, w1b, w2b = ma["w1"], ma["w2"], mb["w1"], mb["w2"]
                if kind == "centres":
                    # relabel: compare symmetrised for auto (pairs are stored in the upper triangle)
                    ca = ca[:, perm][:, :, perm]
                    w1a, w2a = w1a[:, perm], w2a[:, perm]
                    if ma["auto"]:
                        sym = lambda x: x + np.transpose(x, (0, 2, 1)) - np.stack([np.diag(np.diag(y)) for y in x])  # noqa
                        ca, cb = sym(ca), sym(cb)
                if kind == "weights":
                    f = t["factor"]
                    cats_of = {"auto": {"dd": (0, 0), "dr": (0, 1), "rr": (1, 1)}, "cross": None}
                    if base["mode"] == "auto":
                        i1, i2 = cats_of["auto"][mname]
                    else:
                        prods = {p[0]: (p[1], p[2]) for p in c01.products(base)}
                        i1, i2 = prods[mname]
                    f1 = f if i1 == t["cat"] else 1.0
                    f2 = f if i2 == t["cat"] else 1.0
                    ca, w1a, w2a = ca * f1 * f2, w1a * f1, w2a * f2
                # the library differences cumulative counts over *all* scale limits: a cell's residue is
                # relative to the largest cumulative count, i.e. to the counts of all scales together
                allscales = sum(float(np.abs(A[k][mname]["counts"]).max()) for k in range(len(A)) if mname in A[k])
                if kind == "weights":
                    allscales *= f1 * f2
                ok = close(ca, cb, max(float(np.abs(ca).max()), allscales) + 1)
                ck.expect(ok, f"{kind}:counts-change:{mname}:{'auto' if ma['auto'] else 'cross'}", f"scale {sidx}: max |diff| {np.abs(ca - cb).max() if ca.shape == cb.shape else 'shape'}")
                ck.expect(np.allclose(w1a, w1b, rtol=1e-12, atol=0) and np.allclose(w2a, w2b, rtol=1e-12, atol=0), f"{kind}:weight-sums-change:{mname}")

        # ---- downstream values
        for sidx in range(len(A)):
            da, db = DA[sidx], DB[sidx]
            if da is None or db is None:
                continue
            tol_d = 1e-7 * da["scale_d"]
            good = da["fin_d"] & db["fin_d"]
            with np.errstate(all="ignore"):
                ck.expect(np.all(np.abs(da["data"] - db["data"])[good] <= tol_d[good] + 1e-12), f"{kind}:amplitude-changes", f"{da['data']} vs {db['data']}")
                sa = da["samples"][perm] if kind == "centres" else da["samples"]
                fa = da["fin_s"][perm] if kind == "centres" else da["fin_s"]
                ssa = da["scale_s"][perm] if kind == "centres" else da["scale_s"]
                gs = fa & db["fin_s"]
                if sa.shape == db["samples"].shape:
                    ck.expect(np.all(np.abs(sa - db["samples"])[gs] <= 1e-7 * ssa[gs] + 1e-12), f"{kind}:jackknife-samples-change", "samples differ (after permuting with the centres)" if kind == "centres" else "")
                else:
                    ck.fail(f"{kind}:jackknife-samples-shape", "")
                if np.all(gs) and np.all(np.isfinite(da["cov"])) and np.all(np.isfinite(db["cov"])):
                    sc = (1e-7 * ssa).max() * max(np.abs(sa).max(), 1e-300) * K * 4 + 1e-14
                    ck.expect(np.all(np.abs(da["cov"] - db["cov"]) <= sc + 1e-6 * np.abs(da["cov"])), f"{kind}:covariance-changes", f"{np.abs(da['cov'] - db['cov']).max()} > {sc}")
                if da["nz"] is not None and db["nz"] is not None:
                    ck.expect(np.all(np.abs(da["nz"] - db["nz"])[good] <= (tol_d / da["dz"])[good] + 1e-12), f"{kind}:redshift-estimate-changes")
    return ck.results()


def components():
    return [Component("metamorphic", case_strategy(), run_case, quick=500, thorough=15_000)]
