"""
C16 — random catalogs: exact size, footprint, joint attributes, reproducible by seed.
"""

from __future__ import annotations

import math

import numpy as np
from hypothesis import strategies as st

from vlib import gen, schedpool, sources
from vlib.runner import Checker, Component, Result, Scratch, exc_sig

PROPERTY = "C16"
LEVEL = "exploration"
RULE = (
    "Hypothesis draws windows (RA limits in [0,360], sometimes across RA=0 with a negative lower or an upper limit above 360; Dec limits anywhere incl. +-90 and polar caps), sizes N with chunk sizes around divisors of N, "
    "seeds, attribute arrays with distinct joint rows, patch mode (centres or patch_num with probe_size in [10*patch_num, N]) and a history of earlier "
    "uses of the same generator object. Oracle: record count == N; all points inside the window (1e-12 rad in RA, 2e-8 in Dec); every stored "
    "(weight, redshift) pair is a row of the supplied arrays; the same generator object after other uses and a fresh generator with the same "
    "seed give identical record multisets; statistical component: chi-square over an 8x8 equal-area grid (reject at p<1e-9) and the mean of "
    "sin(Dec) within 6 sigma for N=20000. Non-trivial: N not a multiple of the chunk size with >=2 chunks, or a window touching a pole (uniformity)."
)
ASSUMPTIONS = [
    "uniformity test is deterministic per seed with false-alarm probability < 1e-7 per run",
    "the random stream legitimately depends on the chunk size; only the count is compared across chunk sizes",
    "'drawn from the supplied samples' is read as: every source row is drawn with equal probability (row frequencies within 6 sigma for N=20000, up to 7 rows)",
]


@st.composite
def window(draw):
    if draw(st.integers(0, 4)) == 0:
        # window across RA = 0 written with a negative lower or an upper limit beyond 360 degrees
        # (e.g. -30..20 or 350..370); membership is then meant modulo 360 degrees
        ra0 = draw(st.one_of(gen.floats(-180.0, -0.5), gen.floats(200.0, 359.5)))
        ra1 = draw(gen.floats(max(ra0 + 0.5, 0.5 if ra0 < 0 else 360.5), ra0 + 359.0))
    else:
        ra0 = draw(st.one_of(gen.floats(0.0, 350.0), st.just(0.0)))
        ra1 = draw(st.one_of(gen.floats(ra0 + 0.5, 360.0), st.just(360.0)))
    dec0 = draw(st.one_of(gen.floats(-90.0, 80.0), st.just(-90.0)))
    dec1 = draw(st.one_of(gen.floats(dec0 + 0.5, 90.0), st.just(90.0)))
    return [ra0, ra1, dec0, dec1]


@st.composite
def case_strategy(draw):
    from props.c02_creation import chunksize_for

    n = draw(st.integers(1, 300))
    k = draw(st.integers(1, 8))
    rows = draw(st.lists(st.tuples(gen.floats(0.1, 9.0), gen.floats(0.01, 3.0)), min_size=k, max_size=k, unique_by=(lambda t: t[0], lambda t: t[1])))
    attrs = draw(st.sampled_from(["none", "w", "z", "both", "both"]))
    mode = draw(st.sampled_from(["centers", "centers", "num"]))
    if n < 40:
        mode = "centers"
    return {
        "n": n, "window": draw(window()), "seed": draw(st.integers(0, 2**32 - 1)), "chunksize": draw(chunksize_for(n)), "chunksize_b": draw(chunksize_for(n)),
        "rows": [list(r) for r in rows], "attrs": attrs, "mode": mode, "patch_num": draw(st.integers(1, 3)), "probe": draw(st.integers(min(n, 30), n)), "probe_is_chunk": draw(st.booleans()),
        "history": draw(st.lists(st.sampled_from(["call5", "call_n", "catalog", "reseed_other"]), max_size=3)),
        "workers": draw(st.sampled_from([1, 1, 3])), "tape": draw(st.lists(st.integers(0, 5), max_size=8)),
    }


def make_generator(case):
    from yaw.randoms import BoxRandoms

    rows = np.array(case["rows"], float)
    w = rows[:, 0] if case["attrs"] in ("w", "both") else None
    z = rows[:, 1] if case["attrs"] in ("z", "both") else None
    return BoxRandoms(*case["window"], weights=w, redshifts=z, seed=case["seed"])


def create(case, g, path, chunksize, mode=None):
    from yaw import AngularCoordinates, Catalog

    win = case["window"]
    kw = dict(chunksize=chunksize, max_workers=case["workers"])
    if (mode or case["mode"]) == "centers":
        kw["patch_centers"] = AngularCoordinates(np.deg2rad([[0.5 * (win[0] + win[1]), 0.5 * (win[2] + win[3])]]))
    else:
        probe = max(case["probe"], 10 * case["patch_num"])
        if case.get("probe_is_chunk") and 10 * case["patch_num"] <= chunksize <= case["n"]:
            probe = chunksize  # the sample for the centres has exactly the size of one chunk
        kw.update(patch_num=case["patch_num"], probe_size=probe)
    if case["workers"] > 1:
        with schedpool.Patched(case["tape"]):
            return Catalog.from_random(path, g, case["n"], **kw)
    return Catalog.from_random(path, g, case["n"], **kw)


def all_records(cat):
    st_ = sources.stored_records(cat)
    return np.concatenate(list(st_.values())) if st_ else np.empty((0, 2))


def run_case(case):
    n, c = case["n"], case["chunksize"]
    win = case["window"]
    ck = Checker(n % c != 0 and n > c, classes=[f"attrs:{case['attrs']}", f"mode:{case['mode']}", f"workers:{case['workers']}", f"history:{len(case['history'])}"])
    if win[2] == -90.0 or win[3] == 90.0:
        ck.cls("touches-pole")
    with Scratch() as tmp:
        try:
            g = make_generator(case)
            # history of earlier uses of this generator object
            for i, h in enumerate(case["history"]):
                if h == "call5":
                    g(5)
                elif h == "call_n":
                    g(n)
                elif h == "catalog":
                    create(case, g, tmp / f"h{i}", max(1, c - 1))
                elif h == "reseed_other":
                    pass
            cat = create(case, g, tmp / "a", c)
            fresh = create(case, make_generator(case), tmp / "b", c)
            other = create(case, make_generator(case), tmp / "c", case["chunksize_b"])
            # the pass that generates centres is an earlier use of the generator like any other: with
            # given centres the same seed and chunk size yield the same points
            plain = create(case, make_generator(case), tmp / "d", c, mode="centers") if case["mode"] == "num" else None
        except Exception as e:  # noqa
            if case["mode"] == "num" and ("contains no data" in str(e) or "writer process failed" in str(e) or "infs or NaNs" in str(e)):
                return Result.discard("kmeans-degenerate")
            ck.fail(f"from_random|{exc_sig(e)}", f"{type(e).__name__}: {e}")
            return ck.results()
        rec = all_records(cat)
        ck.expect(len(rec) == n, "count:not-exact", f"{len(rec)} records for N={n}, chunksize={c}")
        ck.expect(len(all_records(other)) == n, "count:not-exact", f"{len(all_records(other))} records for N={n}, chunksize={case['chunksize_b']}")
        ck.expect(sum(cat.get_num_records()) == n, "count:metadata")
        if len(rec):
            ra, dec = rec[:, 0], rec[:, 1]
            lo, hi = math.radians(win[0]), math.radians(win[1])
            dlo, dhi = math.radians(win[2]), math.radians(win[3])
            rel = np.mod(ra - lo, 2 * math.pi)  # position inside the window, modulo a full turn
            ck.expect(np.all((rel <= (hi - lo) + 1e-12) | (rel >= 2 * math.pi - 1e-12)), "footprint:ra-outside-window", f"[{ra.min()}, {ra.max()}] vs [{lo}, {hi}]")
            if win[0] < 0 or win[1] > 360:
                ck.cls("window-across-ra0-with-out-of-range-limit")
            ck.expect(np.all((dec >= dlo - 2e-8) & (dec <= dhi + 2e-8)), "footprint:dec-outside-window", f"[{dec.min()}, {dec.max()}] vs [{dlo}, {dhi}]")
            rows = np.array(case["rows"], float)
            if case["attrs"] == "both":
                ok = all(any(r[2] == w and r[3] == z for w, z in rows) for r in rec)
                ck.expect(ok, "attributes:not-drawn-jointly", "a stored (weight, redshift) pair is not a row of the supplied samples")
            elif case["attrs"] == "w":
                ck.expect(np.isin(rec[:, 2], rows[:, 0]).all(), "attributes:weight-not-from-sample")
            elif case["attrs"] == "z":
                ck.expect(np.isin(rec[:, 2], rows[:, 1]).all(), "attributes:redshift-not-from-sample")
            ck.expect(rec.shape[1] == 2 + (case["attrs"] in ("w", "z")) + 2 * (case["attrs"] == "both"), "attributes:columns", f"{rec.shape}")
        # reproducibility
        ck.expect(sources.multiset(rec) == sources.multiset(all_records(fresh)), "seed:used-generator-differs-from-fresh", f"history {case['history']}")
        if plain is not None:
            ck.expect(sources.multiset(rec) == sources.multiset(all_records(plain)), "seed:points-depend-on-how-centres-are-obtained", f"patch_num={case['patch_num']} vs given centre, chunksize {c}")
    return ck.results()


# --------------------------------------------------------------------------
@st.composite
def uniform_case(draw):
    w = draw(window())
    # need some extent for the test to be meaningful
    if w[3] - w[2] < 5.0:
        w[3] = min(90.0, w[2] + 5.0)
        if w[3] - w[2] < 5.0:
            w[2] = w[3] - 5.0
    return {"window": w, "seed": draw(st.integers(0, 2**32 - 1)), "n": 20000, "rows": draw(st.integers(1, 7))}


def run_uniform(case):
    from scipy import stats

    from yaw.randoms import BoxRandoms

    win = case["window"]
    ck = Checker(win[2] == -90.0 or win[3] == 90.0 or (win[3] - win[2]) > 40, classes=["touches-pole" if (win[2] == -90.0 or win[3] == 90.0) else "no-pole"])
    k = int(case.get("rows", 0))
    try:
        # attribute samples with k distinct joint rows: every row is drawn equally often
        g = BoxRandoms(*win, seed=case["seed"], weights=np.arange(1, k + 1, dtype=float) if k else None, redshifts=0.1 * np.arange(1, k + 1) if k else None)
        chunk = g(case["n"])
    except Exception as e:  # noqa
        ck.fail(f"generate|{exc_sig(e)}", f"{type(e).__name__}: {e}")
        return ck.results()
    ra, dec = np.asarray(chunk["ra"]), np.asarray(chunk["dec"])
    n = len(ra)
    ck.expect(n == case["n"], "uniform:count")
    lo, hi = math.radians(win[0]), math.radians(win[1])
    slo, shi = math.sin(math.radians(win[2])), math.sin(math.radians(win[3]))
    u = np.mod(ra - lo, 2 * math.pi) / (hi - lo)
    v = (np.sin(dec) - slo) / (shi - slo)
    # equal-area cells in (RA, sin Dec)
    iu = np.clip((u * 8).astype(int), 0, 7)
    iv = np.clip((v * 8).astype(int), 0, 7)
    counts = np.zeros((8, 8))
    np.add.at(counts, (iu, iv), 1)
    chi2 = ((counts - n / 64.0) ** 2 / (n / 64.0)).sum()
    p = stats.chi2.sf(chi2, 63)
    ck.expect(p >= 1e-9, "uniform:not-uniform-in-area", f"chi2={chi2:.1f}, p={p:.2e}, window={win}")
    if k:
        wts = np.asarray(chunk["weights"], float)
        zs = np.asarray(chunk["redshifts"], float)
        ck.expect(np.allclose(zs, 0.1 * wts, rtol=1e-12, atol=0), "uniform:attributes-not-joint")
        counts_k = np.array([(wts == i).sum() for i in range(1, k + 1)])
        sig_k = math.sqrt(n * (1.0 / k) * (1.0 - 1.0 / k)) if k > 1 else 0.0
        ck.expect(counts_k.sum() == n and np.all(np.abs(counts_k - n / k) <= 6 * sig_k + 1e-9), "uniform:attribute-rows-not-drawn-uniformly", f"row counts {counts_k.tolist()} for n={n}, {k} rows")
    mean_v = v.mean()
    sigma = math.sqrt(1.0 / 12.0 / n)
    ck.expect(abs(mean_v - 0.5) <= 6 * sigma, "uniform:mean-sin-dec", f"mean={mean_v:.5f} ({(mean_v - 0.5) / sigma:.1f} sigma), window={win}")
    return ck.results()


def components():
    return [
        Component("catalogs", case_strategy(), run_case, quick=700, thorough=30_000),
        Component("uniformity", uniform_case(), run_uniform, quick=200, thorough=5_000),
    ]
