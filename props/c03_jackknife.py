"""
C03 — jackknife sample k is the statistic with patch k left out; covariance is
the delete-one jackknife covariance of exactly these samples.

Array level: generated containers with exactly representable entries (integers,
halves, quarters) so that "remove row/column k and recompute" (the oracle) and
the library's subtract-from-total shortcut must agree *exactly* at the level of
totals and normalisations; estimator values are compared with a tolerance that
accounts for the one place where operation order may differ.

End-to-end level (component e2e / hist): the statistic is really recomputed
from catalogs with patch k's records removed.
"""

from __future__ import annotations

import numpy as np
from hypothesis import strategies as st

from vlib import gen
from vlib import oracle_stats as osx
from vlib.runner import Checker, Component, Result

PROPERTY = "C03"
LEVEL = "exploration"
RULE = (
    "array level: Hypothesis builds NormalisedCounts/CorrFunc (every dd+{dr,rd,rr} subset, auto and cross, 1-5 bins, 2-7 patches, "
    "sparse, exactly representable entries) and sample matrices; oracle deletes row/column/weight k explicitly and re-sums with loops, "
    "covariance by explicit (N-1)/N sum_k (x_k-mean)(x_k-mean)^T loops. End-to-end: catalogs with P in [2,5] patches are measured, then "
    "re-created without patch k and measured again; redshift histograms likewise. Non-trivial: >=3 patches and patch k has a non-zero "
    "off-diagonal count in its row or column and per-patch totals pairwise distinct (so a permuted sample order is visible)."
    ' Extensions: containers also as restored from HDF5, unpickled, fully sliced or deep-copied; 127-300 patches for pair-count containers (expanded from a drawn seed) and for histograms.'
)
ASSUMPTIONS = [
    "entries are dyadic rationals so totals/normalisations are exact in float64; estimator tolerance 64 ulp of the largest term over |rr|",
    "NaN from an empty leave-one-out normalisation is compared with equal_nan",
]


@st.composite
def nc_case(draw):
    c = draw(gen.normalised_counts_case(min_patches=2, max_patches=7, exact=True))
    gen.scale_weights(c, draw(st.sampled_from(gen.WEIGHT_SCALES)))
    if draw(st.integers(0, 39)) == 0:
        # hundreds of patches, in compact form (see gen.expand_counts)
        c = {"binning": c["binning"], "npatch": draw(st.sampled_from([300, 257, 256, 255, 183, 182, 181, 129, 128, 127])), "auto": c["auto"], "expand": draw(st.integers(0, 2**32 - 1))}
    return {"kind": draw(st.sampled_from(["PatchedCounts", "PatchedSumWeights", "NormalisedCounts"])), "c": c, "prior": draw(st.sampled_from([None, None, "get_array", "sample"])), "via": draw(st.sampled_from(gen.PROVENANCE))}


def _distinct_rows(counts):
    c = np.asarray(counts)
    tot = c.sum(axis=(0, 2)) + c.sum(axis=(0, 1))
    return len(set(np.round(tot, 9).tolist())) == len(tot)


def _offdiag_nonzero(counts):
    c = np.asarray(counts).sum(axis=0)
    off = c - np.diag(np.diag(c))
    return bool(np.all((off.sum(axis=0) + off.sum(axis=1)) > 0))


def run_nc(case):
    kind, c = case["kind"], gen.expand_counts(case["c"])
    npatch = c["npatch"]
    counts = np.array(c["counts"], float)
    nontrivial = npatch >= 3 and _offdiag_nonzero(counts) and _distinct_rows(counts)
    ck = Checker(nontrivial, classes=[f"kind:{kind}", "auto" if c["auto"] else "cross", f"patches:{npatch if npatch < 100 else '>=127'}"])
    if kind == "PatchedCounts":
        obj = gen.build_counts(c)
        ref = lambda k: osx.loo_counts_total(counts, k)  # noqa
    elif kind == "PatchedSumWeights":
        obj = gen.build_sumw(c)
        ref = lambda k: osx.loo_norm(c["w1"], c["w2"], c["auto"], k)  # noqa
    else:
        obj = gen.build_normalised(c)
        ref = lambda k: osx.normalised_total(c, k)  # noqa
    if case.get("via"):
        ok, obj = ck.call(gen.via, f"via:{case['via']}:{kind}", obj, case["via"])
        if not ok:
            return ck.results()
        ck.cls(f"via:{case['via']}")
    with np.errstate(all="ignore"):
        if case.get("prior") == "get_array":
            ck.call(obj.get_array, f"get_array:{kind}")
        elif case.get("prior") == "sample":
            ck.call(obj.sample_patch_sum, f"sample_patch_sum:{kind}")  # an earlier evaluation on the same object
        ok, s = ck.call(obj.sample_patch_sum, f"sample_patch_sum:{kind}")
    if not ok:
        return ck.results()
    if case.get("prior"):
        ck.cls(f"prior:{case['prior']}")
    ck.expect(s.samples.shape == (npatch, len(c["binning"]["edges"]) - 1), f"samples:{kind}:shape", str(s.samples.shape))
    ck.expect(np.array_equal(s.data, ref(None), equal_nan=True), f"data:{kind}:not-sum-over-all", lambda: f"{s.data} vs {ref(None)}")
    for k in range(npatch):
        exp = ref(k)
        if not np.array_equal(s.samples[k], exp, equal_nan=True):
            # diagnose: is it another patch's sample?
            which = [j for j in range(npatch) if np.array_equal(s.samples[k], ref(j), equal_nan=True)]
            tag = "permuted" if which else "wrong-value"
            ck.fail(f"samples:{kind}:{tag}", f"sample {k}: {s.samples[k]} expected {exp}; equals leave-out of {which}")
            break
    return ck.results()


@st.composite
def cf_case(draw):
    c = draw(gen.corrfunc_case(min_patches=2, max_patches=7, exact=True, max_bins=4))
    c["prior"] = draw(st.sampled_from([None, None, "sample", "get_array"]))  # earlier read-only use of the same object
    f = draw(st.sampled_from(gen.WEIGHT_SCALES))
    for k in ["dd"] + list(c["present"]):
        gen.scale_weights(c[k], f)
    c["via"] = draw(st.sampled_from(gen.PROVENANCE))
    return c


def _cf_reference(c, k):
    """reference estimator values, tolerance, and the mask of bins that are judged:
    bins where a term is non-finite or the denominator is zero are degenerate (the
    algebraically equal forms (DD-DR)/DR and DD/DR-1 differ under IEEE there)"""
    terms = {kind: osx.normalised_total(c[kind], k) for kind in ["dd"] + list(c["present"])}
    name, outs = osx.estimator(terms)
    finite = np.all([np.isfinite(t) for t in terms.values()], axis=0)
    denoms = [terms[key] for key in ("rr",) if key in terms] or [terms[key] for key in ("dr", "rd") if key in terms]
    judged = finite & np.all([d != 0 for d in denoms], axis=0)
    scale = sum(np.abs(np.nan_to_num(t, nan=0.0, posinf=0.0, neginf=0.0)) for t in terms.values())
    with np.errstate(all="ignore"):
        atol = 64 * np.finfo(float).eps * scale / np.min(np.abs(denoms), axis=0)
    atol = np.where(np.isfinite(atol), atol, 0.0)
    return name, outs, (atol, judged)


def _match_any(val, outs, tol):
    atol, judged = tol
    if val.shape != judged.shape:
        return False
    with np.errstate(all="ignore"):
        for o in outs:
            good = (np.abs(val - o) <= atol + 1e-14 * np.abs(o)) | ~judged
            if np.all(good):
                return True
    return not outs


def run_cf(case):
    c = case
    npatch = c["npatch"]
    counts = np.array(c["dd"]["counts"], float)
    nontrivial = npatch >= 3 and _offdiag_nonzero(counts) and _distinct_rows(counts)
    ck = Checker(nontrivial, classes=["members:" + "+".join(c["present"]), "auto" if c["auto"] else "cross"])
    cf = gen.build_corrfunc(c)
    name, outs, atol = _cf_reference(c, None)
    if name == "LS-without-dr":
        ck.cls("ls_without_dr(not judged)")
        return ck.results()
    if c.get("via"):
        ok, cf = ck.call(gen.via, f"via:{c['via']}:CorrFunc", cf, c["via"])
        if not ok:
            return ck.results()
        ck.cls(f"via:{c['via']}")
    with np.errstate(all="ignore"):
        prior = c.get("prior")
        if prior == "sample":
            ck.call(cf.sample, "CorrFunc.sample")  # earlier evaluation on the same object
        elif prior == "get_array":
            for member in cf.to_dict().values():
                ck.call(member.get_array, "NormalisedCounts.get_array")
        ok, s = ck.call(cf.sample, "CorrFunc.sample")
    if not ok:
        return ck.results()
    if prior:
        ck.cls(f"prior:{prior}")
    ck.expect(_match_any(s.data, outs, atol), "CorrFunc.sample:data", lambda: f"{s.data} vs {outs}")
    ck.expect(s.samples.shape[0] == npatch, "CorrFunc.sample:num-samples", str(s.samples.shape))
    refs = [_cf_reference(c, k) for k in range(npatch)]
    for k in range(min(npatch, s.samples.shape[0])):
        _, o, at = refs[k]
        if not _match_any(s.samples[k], o, at):
            which = [j for j in range(npatch) if _match_any(s.samples[k], refs[j][1], refs[j][2])]
            ck.fail("CorrFunc.sample:samples:" + ("permuted" if which else "wrong-value"), f"sample {k}: {s.samples[k]} expected one of {o}; equals leave-out of {which}")
            break
    return ck.results()


@st.composite
def cov_case(draw):
    elem = st.one_of(gen.floats(-100.0, 100.0), st.integers(-5, 5).map(float))
    c = draw(gen.sampled_case(elem=elem, min_samples=2, max_samples=9, max_bins=5))
    c["cls"] = draw(st.sampled_from(["CorrData", "RedshiftData", "HistData"]))
    if draw(st.integers(0, 3)) == 3:
        # scatter that is tiny compared with the values (near-identical patches, or a large common
        # offset): value = offset + k * step with small integers k, all exactly representable
        offset, step = draw(st.sampled_from([(2.0**14, 2.0**-12), (2.0**20, 2.0**-10), (-(2.0**17), 2.0**-9), (3.0 * 2.0**10, 2.0**-16)]))
        arr = np.array(c["samples"], float)
        ks = np.array(draw(st.lists(st.integers(-8, 8), min_size=arr.size, max_size=arr.size)), float).reshape(arr.shape)
        c["samples"] = (offset + ks * step).tolist()
        c["data"] = (offset + 0.0 * np.array(c["data"], float)).tolist()
        c["offset_scatter"] = [offset, step]
    return c


def run_cov(case):
    from yaw import CorrData, HistData, RedshiftData

    cls = {"CorrData": CorrData, "RedshiftData": RedshiftData, "HistData": HistData}[case["cls"]]
    samples = np.array(case["samples"], float)
    n, nb = samples.shape
    ck = Checker(n >= 3 and nb >= 2 and np.ptp(samples) > 0, classes=[f"cls:{case['cls']}", f"samples:{n}"])
    obj = gen.build_sampled(case, cls)
    ok, cov = ck.call(lambda: obj.covariance, "covariance")
    if not ok:
        return ck.results()
    ref = osx.jackknife_cov(samples)
    scale = max(1e-300, float(np.abs(samples).max()) ** 2) * n
    if case.get("offset_scatter"):
        # deviations from the mean are small integers times a power of two: the reference is
        # (nearly) exact and the tolerance refers to the scatter, not to the offset
        ck.cls("tiny-scatter-on-large-offset")
        ref = osx.jackknife_cov(samples - samples.mean(axis=0, keepdims=True))
        scale = float(np.abs(samples - samples.mean(axis=0, keepdims=True)).max() ** 2) * n * 1e6
    ck.expect(cov.shape == (nb, nb), "covariance:shape", str(cov.shape))
    if cov.shape == (nb, nb):
        ck.expect(np.allclose(cov, ref, rtol=1e-9, atol=1e-12 * scale), "covariance:not-delete-one-jackknife", lambda: f"{cov} vs {ref}")
        ck.expect(np.array_equal(cov, cov.T), "covariance:not-symmetric")
        ev = np.linalg.eigvalsh((cov + cov.T) / 2)
        ck.expect(ev.min() >= -1e-10 * max(np.trace(cov), 1e-300), "covariance:not-psd", f"min eigenvalue {ev.min()}")
        ok, err = ck.call(lambda: obj.error, "error")
        if ok:
            ck.expect(np.allclose(err, np.sqrt(np.diag(ref)), rtol=1e-9, atol=1e-6 * np.sqrt(scale) * 1e-3), "error:not-sqrt-diag", lambda: f"{err} vs {np.sqrt(np.diag(ref))}")
    return ck.results()


# --------------------------------------------------------------------------
# redshift estimate samples from corrfuncs
# --------------------------------------------------------------------------
@st.composite
def nz_case(draw):
    cross = draw(gen.corrfunc_case(subsets=[("dr",), ("rd",), ("dr", "rd", "rr"), ("dr", "rr")], min_patches=2, max_patches=6, exact=True, auto=False, max_bins=3, positive_weights=True))
    out = {"cross": cross, "ref": None, "unk": None}
    for key in ("ref", "unk"):
        if draw(st.booleans()):
            a = {"binning": cross["binning"], "npatch": cross["npatch"], "auto": True, "present": list(draw(st.sampled_from([("dr",), ("dr", "rr")])))}
            for kind in ["dd"] + a["present"]:
                a[kind] = draw(gen.normalised_counts_case(binning=cross["binning"], npatch=cross["npatch"], auto=True, exact=True, positive_weights=True))
            out[key] = a
    return out


def run_nz(case):
    from yaw import RedshiftData

    cross = case["cross"]
    npatch = cross["npatch"]
    ck = Checker(npatch >= 3 and _distinct_rows(cross["dd"]["counts"]), classes=[f"autocorr:{int(case['ref'] is not None)}{int(case['unk'] is not None)}"])
    cfs = {k: (gen.build_corrfunc(case[k]) if case[k] else None) for k in ("cross", "ref", "unk")}
    with np.errstate(all="ignore"):
        ok, nz = ck.call(lambda: RedshiftData.from_corrfuncs(cfs["cross"], cfs["ref"], cfs["unk"]), "from_corrfuncs")
    if not ok:
        return ck.results()
    dz = np.diff(np.array(cross["binning"]["edges"]))

    def ref(k):
        vals = {}
        judged = np.ones(len(dz), dtype=bool)
        for key in ("cross", "ref", "unk"):
            if case[key] is None:
                vals[key] = [np.ones(len(dz))]
            else:
                _, outs, (_, j) = _cf_reference(case[key], k)
                vals[key] = outs
                judged &= j
        res = []
        with np.errstate(all="ignore"):
            for a in vals["cross"]:
                for b in vals["ref"]:
                    for c in vals["unk"]:
                        res.append(a / np.sqrt(dz**2 * b * c))
        return res, judged

    def match(v, ref_k):
        outs, judged = ref_k
        if v.shape != judged.shape:
            return False
        return any(np.allclose(v[judged], o[judged], rtol=1e-9, atol=0, equal_nan=True) for o in outs)

    ck.expect(match(nz.data, ref(None)), "nz:data", lambda: f"{nz.data} vs {ref(None)}")
    ck.expect(nz.samples.shape[0] == npatch, "nz:num-samples")
    refs = [ref(k) for k in range(npatch)]
    for k in range(min(npatch, nz.samples.shape[0])):
        if not match(nz.samples[k], refs[k]):
            which = [j for j in range(npatch) if match(nz.samples[k], refs[j])]
            ck.fail("nz:samples:" + ("permuted" if which else "wrong-value"), f"sample {k}: {nz.samples[k]} expected {refs[k]}; equals leave-out of {which}")
            break
    return ck.results()


def components():
    comps = [
        Component("loo_counts", nc_case(), run_nc, quick=3000, thorough=100_000),
        Component("loo_corrfunc", cf_case(), run_cf, quick=3000, thorough=100_000),
        Component("loo_nz", nz_case(), run_nz, quick=1500, thorough=50_000),
        Component("covariance", cov_case(), run_cov, quick=3000, thorough=100_000),
    ]
    try:
        from props import _c03_e2e

        comps.extend(_c03_e2e.components())
    except ImportError:
        pass
    return comps
