"""
C07 — measurements are independent of what was cached before.

Model-based history search: Hypothesis draws the records of three catalogs and a
sequence of operations (tree builds with other binnings / closed side / role /
force / leafsize, measurements with neighbouring configurations, histograms,
reopening, role swaps).  The model of the system is trivial -- "a measurement is
a function of records and configuration" -- so the oracle after every measuring
step is the same call on freshly created caches of the same records.
"""

from __future__ import annotations

import numpy as np
from hypothesis import strategies as st

from vlib import gen
from vlib import pipeline as pl
from vlib.runner import Checker, Component, Result, Scratch, exc_sig

PROPERTY = "C07"
LEVEL = "exploration"
RULE = (
    "Hypothesis draws three catalogs on shared centres and a history of 2-14 operations over them: build_trees(catalog, binning from a pool "
    "or None, closed, force, leafsize), autocorrelate(cfg), crosscorrelate(cfg, which randoms, roles possibly swapped), HistData(cfg), reopen. "
    "The configuration pool is built so that neighbours differ in exactly one thing the reuse decision could forget (closed side only, inner "
    "edges only, bin count, sub-range, scales only). Oracle: after every measuring step the result equals the same call on freshly created "
    "caches (memoised per call). Non-trivial: a measurement preceded by >=1 build/measure on the same cache with a different binning, closed "
    "side or binned/unbinned role; distinct = case digest."
)
ASSUMPTIONS = [
    "exact equality; when a non-default leafsize was used for trees that are reused, weighted counts are compared to 1e-12 relative to the largest count of the array (tree shape changes summation order)",
]


@st.composite
def case_strategy(draw):
    theta = draw(gen.loguniform(5e-3, 0.2))
    nb = draw(st.integers(2, 4))
    z0 = draw(gen.floats(0.1, 1.0))
    width = draw(gen.floats(0.2, 1.0))
    base = [z0 + width * k / nb for k in range(nb + 1)]
    shifted = [base[0]] + [e + 0.3 * width / nb for e in base[1:-1]] + [base[-1]]
    fewer = [base[0], base[-1]] if nb > 1 else base
    more = sorted(set(base + [0.5 * (base[0] + base[1])]))
    sub = base[:-1] if nb > 1 else base
    pool = [
        {"edges": base, "closed": "right", "scale": 1.0},
        {"edges": base, "closed": "left", "scale": 1.0},  # closed side only
        {"edges": shifted, "closed": "right", "scale": 1.0},  # inner edges only
        {"edges": fewer, "closed": "right", "scale": 1.0},  # bin count
        {"edges": more, "closed": "right", "scale": 1.0},
        {"edges": sub, "closed": "right", "scale": 1.0},  # sub-range
        {"edges": base, "closed": "right", "scale": 0.5},  # scales only
    ]
    scene = draw(gen.scene_case(theta, base, 4, need_z=(0, 1, 2, 3), min_patches=1, max_patches=4, max_per_patch=6))
    n_ops = draw(st.integers(2, 14))
    ops = []
    for _ in range(n_ops):
        kind = draw(st.sampled_from(["build", "build", "auto", "cross", "cross", "hist", "reopen"]))
        op = {"op": kind, "cat": draw(st.integers(0, 3))}
        if kind in ("build", "auto", "cross"):
            # some steps run on two real worker processes: a history may mix sequential and
            # parallel use of the same cache (state kept in the parent vs. in short-lived workers)
            op["workers"] = draw(st.sampled_from([1, 1, 1, 2]))
        if kind == "build":
            op.update(cfg=draw(st.one_of(st.none(), st.integers(0, len(pool) - 1))), force=draw(st.sampled_from([False, False, True])), leafsize=draw(st.sampled_from([16, 16, 16, 2, 64])))
            # a build may be interrupted (exception while the trees of the k-th patch are built,
            # e.g. out of memory or Ctrl-C): the patches before are rebuilt, the others are not
            op["interrupt_after"] = draw(st.sampled_from([None, None, None, 0, 1, 2]))
            if op["interrupt_after"] is not None:
                op["workers"] = 1
        elif kind in ("auto", "hist"):
            op.update(cfg=draw(st.integers(0, len(pool) - 1)))
            if kind == "auto":
                op["rand"] = (op["cat"] + draw(st.integers(1, 3))) % 4
                op["count_rr"] = draw(st.booleans())
        elif kind == "cross":
            perm = draw(st.permutations([0, 1, 2, 3]))
            # distinct catalogs for every role: one cache cannot hold binned and unbinned trees at once
            op.update(cfg=draw(st.integers(0, len(pool) - 1)), ref=perm[0], unk=perm[1], rand=perm[2], rand2=perm[3], rands=draw(st.sampled_from(["unk", "ref", "both"])))
        ops.append(op)
    return {"theta": theta, "pool": pool, "scene": scene, "ops": ops}


def cfg_dict(case, i):
    p = case["pool"][i]
    return {"edges": p["edges"], "closed": p["closed"], "zmin": None, "zmax": None, "num_bins": None, "method": "custom", "rmin": [case["theta"] * 0.05 * p["scale"]], "rmax": [case["theta"] * p["scale"]], "unit": "rad", "cosmology": "Planck15", "rweight": None, "resolution": None}


class StepTimeout(Exception):
    pass


class _Interrupt(Exception):
    pass


class interrupted_build:
    """makes the library's per-patch tree construction raise when it is called for the
    (k+1)-th time inside the block and swallows that exception (k None: no interruption)"""

    def __init__(self, k):
        self.k, self.fired, self.calls = k, False, 0

    def __enter__(self):
        if self.k is not None:
            import yaw.catalog.trees as trees

            self._orig = trees.build_trees

            def build_trees(*a, **kw):
                if self.calls >= self.k:
                    self.fired = True
                    raise _Interrupt()
                self.calls += 1
                return self._orig(*a, **kw)

            trees.build_trees = build_trees
        return self

    def __exit__(self, et, ev, tb):
        if self.k is not None:
            import yaw.catalog.trees as trees

            trees.build_trees = self._orig
        return et is not None and issubclass(et, _Interrupt)


class real_workers:
    """run a step with real multiprocessing (w > 1) inside this process; an alarm guards against a
    library hang (reported as inconclusive, never as a violation)"""

    def __init__(self, w):
        self.w = w

    def __enter__(self):
        if self.w > 1:
            import signal

            import yaw.utils.parallel as par

            self._saved = par._num_processes
            par._num_processes = lambda: 64

            def on_alarm(signum, frame):
                raise StepTimeout()

            self._old = signal.signal(signal.SIGALRM, on_alarm)
            signal.alarm(180)
        return self

    def __exit__(self, *a):
        if self.w > 1:
            import signal

            import yaw.utils.parallel as par

            signal.alarm(0)
            signal.signal(signal.SIGALRM, self._old)
            par._num_processes = self._saved
        return False


def do_measure(op, case, cats, workers=1):
    import yaw
    from yaw.redshifts import HistData

    cfg = pl.make_config(cfg_dict(case, op["cfg"]))
    if op["op"] == "auto":
        cfs = yaw.autocorrelate(cfg, cats[op["cat"]], cats[op["rand"]], count_rr=op["count_rr"], max_workers=workers)
    elif op["op"] == "cross":
        kw = {}
        if op["rands"] in ("unk", "both"):
            kw["unk_rand"] = cats[op["rand"]]
        if op["rands"] == "ref":
            kw["ref_rand"] = cats[op["rand"]]
        if op["rands"] == "both":
            kw["ref_rand"] = cats[op["rand2"]]
        cfs = yaw.crosscorrelate(cfg, cats[op["ref"]], cats[op["unk"]], max_workers=workers, **kw)
    else:
        h = HistData.from_catalog(cats[op["cat"]], cfg, max_workers=1)
        return {"hist": (np.asarray(h.data), np.asarray(h.samples))}
    out = {}
    for kind in ("dd", "dr", "rd", "rr"):
        m = getattr(cfs[0], kind)
        if m is not None:
            out[kind] = (np.asarray(m.counts.counts).copy(), np.asarray(m.sum_weights.sum_weights1).copy(), np.asarray(m.sum_weights.sum_weights2).copy())
    return out


def op_key(op):
    return tuple(sorted((k, v) for k, v in op.items() if k != "workers"))  # the fresh reference is always sequential


def run_case(case):
    from yaw import Catalog

    centers = case["scene"]["centers"]
    ck = Checker(classes=[f"ops:{len(case['ops'])}"])
    memo = {}
    with Scratch() as tmp:
        try:
            (tmp / "hist").mkdir()
            cats = [pl.make_catalog(tmp / "hist" / f"c{i}", c, centers) for i, c in enumerate(case["scene"]["cats"])]
        except Exception as e:  # noqa
            ck.fail(f"setup|{exc_sig(e)}", f"{type(e).__name__}: {e}")
            return ck.results()
        # per catalog: last tree state (binning signature) to classify non-trivial histories
        last = {0: "none", 1: "none", 2: "none", 3: "none"}
        odd_leafsize = False
        fresh_n = 0
        for step, op in enumerate(case["ops"]):
            try:
                if op["op"] == "reopen":
                    cats[op["cat"]] = Catalog(tmp / "hist" / f"c{op['cat']}", max_workers=1)
                    ck.cls("op:reopen")
                    continue
                w = int(op.get("workers", 1))
                if w > 1:
                    ck.cls("step-on-real-worker-processes")
                if op["op"] == "build":
                    with real_workers(w), interrupted_build(op.get("interrupt_after")) as intr:
                        if op["cfg"] is None:
                            cats[op["cat"]].build_trees(None, force=op["force"], leafsize=op["leafsize"], max_workers=w)
                            sig = "unbinned"
                        else:
                            p = case["pool"][op["cfg"]]
                            cats[op["cat"]].build_trees(p["edges"], closed=p["closed"], force=op["force"], leafsize=op["leafsize"], max_workers=w)
                            sig = (tuple(p["edges"]), p["closed"])
                    odd_leafsize |= op["leafsize"] != 16
                    last[op["cat"]] = "mixed" if intr.fired else sig
                    ck.cls("op:build" + (":force" if op["force"] else "") + (":interrupted" if intr.fired else ""))
                    continue
                # ---- measuring step
                p = case["pool"][op["cfg"]]
                want = {}
                if op["op"] == "auto":
                    want = {op["cat"]: (tuple(p["edges"]), p["closed"]), op["rand"]: (tuple(p["edges"]), p["closed"])}
                elif op["op"] == "cross":
                    want = {op["ref"]: (tuple(p["edges"]), p["closed"]), op["unk"]: "unbinned"}
                    if op["rands"] in ("unk", "both"):
                        want[op["rand"]] = "unbinned"
                    if op["rands"] == "ref":
                        want[op["rand"]] = (tuple(p["edges"]), p["closed"])
                    if op["rands"] == "both":
                        want[op["rand2"]] = (tuple(p["edges"]), p["closed"])
                stale = any(last[c] not in ("none", w) for c, w in want.items())
                if stale:
                    ck.nontrivial = True
                    ck.cls("measure-after-different-trees")
                with real_workers(w):
                    got = do_measure(op, case, cats, workers=w)
                for c, w in want.items():
                    last[c] = w
                key = op_key(op)
                if key not in memo:
                    fresh_n += 1
                    d = tmp / f"fresh{fresh_n}"
                    d.mkdir()

                    # the reference runs in a forked child: it must not touch any in-process state
                    # (module-level caches etc.) of the process that carries the history
                    def fresh_reference(d=d, op=op):
                        fresh = [pl.make_catalog(d / f"c{i}", c, centers) for i, c in enumerate(case["scene"]["cats"])]
                        return do_measure(op, case, fresh)

                    from vlib.isolate import run_isolated

                    status, payload = run_isolated(fresh_reference, bound=60.0)
                    if status != "ok":
                        ck.fail(f"fresh-reference:{op['op']}:{status}", str(payload)[:300])
                        break
                    memo[key] = payload
                exp = memo[key]
                ck.cls(f"op:{op['op']}")
                if set(got) != set(exp):
                    ck.fail(f"history:{op['op']}:members-differ", f"step {step}")
                    break
                bad = None
                for k in got:
                    for j, (a, b) in enumerate(zip(got[k], exp[k])):
                        if a.shape != b.shape:
                            bad = (k, j, "shape")
                        elif odd_leafsize:
                            # differences of cumulative weighted counts leave residues of a few ulp of
                            # the larger counts where the exact value is 0: tolerance relative to the array scale
                            if not np.allclose(a, b, rtol=1e-12, atol=1e-12 * float(np.max(np.abs(b), initial=0.0))):
                                bad = (k, j, "values")
                        elif not np.array_equal(a, b):
                            bad = (k, j, "values")
                if bad:
                    prev = [o for o in case["ops"][:step]]
                    ck.fail(f"history:{op['op']}:differs-from-fresh-cache", f"step {step} ({op}); {bad}; history: {prev}")
                    break
            except StepTimeout:
                return Result.discard("real-pool-step-timeout")
            except Exception as e:  # noqa
                ck.fail(f"step:{op['op']}|{exc_sig(e)}", f"step {step} {op}: {type(e).__name__}: {e}")
                break
    return ck.results()


def components():
    return [Component("histories", case_strategy(), run_case, quick=240, thorough=6_000)]
