"""
C01 — pair counts are exact and complete for every catalog and configuration.

Pipeline under test: Catalog.from_dataframe(patch_centers=...) -> autocorrelate /
crosscorrelate.  Oracle: vlib.pipeline.expected_counts (brute force over all
object pairs, atan2 separations, explicit interval tests, no pruning).
"""

from __future__ import annotations

import numpy as np
from hypothesis import strategies as st

from vlib import gen
from vlib import pipeline as pl
from vlib.runner import Checker, Component, Result, Scratch, exc_sig

PROPERTY = "C01"
LEVEL = "exploration"
RULE = (
    "Hypothesis draws a configuration (binning method/custom edges, closed side, zmin from 1e-3 to 5, 1-3 possibly nested scales in "
    "every unit, optional separation weighting, cosmology) with a target largest angle theta_max, then a sky scene laid out relative "
    "to theta_max (1-5 patch centres on a jittered tangent-plane grid at poles/RA seam/anywhere; per catalog and patch independent "
    "count and extent; duplicates; redshifts on/next to edges and outside) and runs autocorrelate or crosscorrelate with a generated "
    "subset of randoms. Oracle: brute-force weight-product sums per (scale, bin, patch pair) with cells containing a pair within "
    "1e-12+1e-9*theta of an edge skipped. Non-trivial: expected DD has a non-zero cross-patch cell and a non-zero diagonal cell; "
    "distinct = case digest."
    ' Extensions: one case in 40 has 128-300 patches on a lattice (bulk expanded from a drawn seed); one in 6 creates the first catalog from a patch-index column and gives it to the others as patch_centers (oracle: centres = direction of the weighted mean vector); half of the cases measure a second configuration (other closed side, other interior edges, edges extended or shortened) on the same catalog objects in the same process, judged by the same brute force.'
)
ASSUMPTIONS = [
    "angles are r/D(z_mid) with D from astropy for the unit's measure (no factor h), see C15",
    "separation weighting is checked up to one constant per redshift bin shared by all products of a measurement (the statement says 'in proportion')",
    "cells with a pair inside the ambiguity band of a scale or fine-grid edge are skipped, cases with an object equidistant (1e-12) from two centres are discarded",
]


@st.composite
def case_strategy(draw):
    mode = draw(st.sampled_from(["auto", "cross", "cross"]))
    # up to 5 scales: with >= 4 scales (>= 8 distinct limits) the library leaves its cumulative
    # counting path also without separation weighting
    huge = draw(st.integers(0, 39)) == 39  # rarely hundreds of patches (three-digit ids, > 8-bit counts)
    # (small angles for those: the lattice has to fit on the sky and only neighbouring patches should be linked)
    cfg, theta_max = draw(gen.config_case(max_scales=draw(st.sampled_from([3, 3, 5])), **({"theta_range": (2e-3, 1e-2)} if huge else {})))
    edges = gen.binning_edges_reference(cfg, cfg["cosmology"])
    many = draw(st.integers(0, 9)) == 0  # occasionally 10-12 patches (two-digit patch ids), few objects each
    size = dict(min_patches=10, max_patches=12, max_per_patch=2) if many else {}
    if mode == "auto":
        ncat, need = 2, (0, 1)
        opts = {"count_rr": draw(st.booleans())}
    else:
        rands = draw(st.sampled_from(["unk", "ref", "both"]))
        ncat = 2 + (2 if rands == "both" else 1)
        need = (0,) if rands == "unk" else (0, 2)
        opts = {"rands": rands}
    allsky = draw(st.integers(0, 6)) == 6  # patches as large as hemispheres
    if allsky:
        scene = draw(gen.allsky_scene(theta_max, edges, ncat, need_z=need))
    elif huge:
        scene = draw(gen.lattice_scene(draw(st.sampled_from([300, 257, 256, 129, 128])), extra=10, ncat=ncat, edges=edges, need_z=need, theta_max=theta_max))
    else:
        scene = draw(gen.scene_case(theta_max, edges, ncat, need_z=need, **size))
    # occasionally the first catalog is created from a patch-index column and the others take
    # their centres from that catalog (centres derived by the library instead of given)
    scene["derived"] = draw(st.integers(0, 5)) == 0
    scene["chunksize"] = draw(st.sampled_from([None, None, None, 1, 2, 5]))
    again = draw(st.sampled_from([None, None, None, None, "closed", "edges", "shorter", "longer"]))
    if huge:
        again = None
    return {"mode": mode, "cfg": cfg, "theta_max": theta_max, "scene": scene, "opts": opts, "again": again}


def build_catalogs(case, tmp):
    centers = case["scene"]["centers"]
    cats = case["scene"]["cats"]
    # the input tables are read in one chunk or in small chunks (a chunk then lacks some patches)
    import functools

    make = functools.partial(pl.make_catalog, chunksize=case["scene"].get("chunksize"))
    if case["scene"].get("derived"):
        # first catalog from a patch-index column, the others take their centres from it
        samples = pl.scene_samples(case["scene"])
        if samples is None:
            raise pl.SceneUnusable("derived centres leave a patch empty")
        names = ["data", "rand"] if case["mode"] == "auto" else ["ref", "unk"] + {"unk": ["unk_rand"], "ref": ["ref_rand"], "both": ["ref_rand", "unk_rand"]}[case["opts"]["rands"]]
        objs = {names[0]: make(tmp / names[0], cats[0], patch_ids=samples[0].patch)}
        for name, cat in zip(names[1:], cats[1:]):
            objs[name] = make(tmp / name, cat, objs[names[0]])
        return objs
    if case["mode"] == "auto":
        return {"data": make(tmp / "data", cats[0], centers), "rand": make(tmp / "rand", cats[1], centers)}
    rands = case["opts"]["rands"]
    objs = {"ref": make(tmp / "ref", cats[0], centers), "unk": make(tmp / "unk", cats[1], centers)}
    if rands == "unk":
        objs["unk_rand"] = make(tmp / "unk_rand", cats[2], centers)
    elif rands == "ref":
        objs["ref_rand"] = make(tmp / "ref_rand", cats[2], centers)
    else:
        objs["ref_rand"] = make(tmp / "ref_rand", cats[2], centers)
        objs["unk_rand"] = make(tmp / "unk_rand", cats[3], centers)
    return objs


def measure(case, tmp, max_workers=1, objs=None):
    """run the public pipeline; returns (config, list[CorrFunc], catalogs dict)"""
    import yaw

    cfg = pl.make_config(case["cfg"])
    if objs is None:
        objs = build_catalogs(case, tmp)
    if case["mode"] == "auto":
        cfs = yaw.autocorrelate(cfg, objs["data"], objs["rand"], count_rr=case["opts"]["count_rr"], max_workers=max_workers)
        return cfg, cfs, objs
    kw = {k: objs[k] for k in ("ref_rand", "unk_rand") if k in objs}
    cfs = yaw.crosscorrelate(cfg, objs["ref"], objs["unk"], max_workers=max_workers, **kw)
    return cfg, cfs, objs


def second_config(case, edges):
    """the configuration of an optional second measurement on the same catalog objects in the
    same process (the statement holds for *every* configuration, whatever was measured before)"""
    kind = case.get("again")
    if kind is None:
        return None
    cfg2 = dict(case["cfg"])
    e = [float(x) for x in edges]
    if kind == "closed":
        cfg2["closed"] = "left" if cfg2["closed"] == "right" else "right"
        return cfg2
    if kind == "edges":  # same number of bins and outer edges, other interior edges
        new = [e[0]] + [a + 0.37 * (b - a) for a, b in zip(e[1:-1], e[2:])] + [e[-1]] if len(e) > 2 else [e[0], 0.5 * (e[0] + e[1]), e[1]]
    else:  # "prefix": the old edges are a leading part of the new ones, or vice versa
        new = e[:-1] if len(e) > 2 and case["again"] == "shorter" else e + [e[-1] + (e[-1] - e[-2])]
    cfg2.update(edges=new, zmin=None, zmax=None, num_bins=None, method="custom")
    return cfg2


def products(case):
    """list of (name, idx1, idx2, auto, binned2) describing the expected members"""
    if case["mode"] == "auto":
        out = [("dd", 0, 0, True, True), ("dr", 0, 1, False, True)]
        if case["opts"]["count_rr"]:
            out.append(("rr", 1, 1, True, True))
        return out
    rands = case["opts"]["rands"]
    out = [("dd", 0, 1, False, False)]
    if rands == "unk":
        out.append(("dr", 0, 2, False, False))
    elif rands == "ref":
        out.append(("rd", 2, 1, False, False))
    else:
        out += [("dr", 0, 3, False, False), ("rd", 2, 1, False, False), ("rr", 2, 3, False, False)]
    return out


def angles_for(case, edges):
    c = case["cfg"]
    mids = (edges[:-1] + edges[1:]) / 2.0
    ns = len(c["rmin"])
    amin = np.empty((ns, len(mids)))
    amax = np.empty((ns, len(mids)))
    for b, z in enumerate(mids):
        amin[:, b] = pl.scale_to_angle(c["cosmology"], c["unit"], c["rmin"], z)
        amax[:, b] = pl.scale_to_angle(c["cosmology"], c["unit"], c["rmax"], z)
    return amin, amax


def compare(case, cfg, cfs, ck: Checker):
    edges = np.asarray(cfg.binning.edges, dtype=float)
    closed = str(cfg.binning.closed)
    cxyz = pl.to_xyz(*np.array(case["scene"]["centers"]).T)
    npatch = len(cxyz)
    samples = pl.scene_samples(case["scene"])
    if samples is None or min(s.margin.min() for s in samples if s.n) < 1e-12:
        return "discard"
    amin, amax = angles_for(case, edges)
    c = case["cfg"]
    weighted = any(s is not None for s in [cat.get("w") for cat in case["scene"]["cats"]]) or c["rweight"] is not None
    ns = amin.shape[0]
    nontrivial = False
    prods = products(case)
    ck.expect(len(cfs) == ns, "num-scales", f"{len(cfs)} CorrFunc for {ns} scales")
    if len(cfs) != ns:
        return
    # constant for separation weighting: determined per bin from the largest expected cell
    const = {}
    results = {}
    for name, i1, i2, auto, binned2 in prods:
        exp, amb, sw1, sw2 = pl.expected_counts(
            samples[i1], samples[i2], auto=auto, binned2=binned2, edges=edges, closed=closed, ang_min=amin, ang_max=amax, npatch=npatch, rweight=c["rweight"], resolution=c["resolution"]
        )
        results[name] = (exp, amb, sw1, sw2)
        if c["rweight"] is not None:
            for s in range(ns):
                member = getattr(cfs[s], name)
                if member is None:
                    continue
                got = member.counts.get_array()
                for b in range(exp.shape[1]):
                    e = np.where(amb[s, b], 0.0, exp[s, b])
                    if e.max() > const.get(b, (0.0, None))[0] and got.shape == exp[s].shape:
                        idx = np.unravel_index(np.argmax(e), e.shape)
                        const[b] = (e.max(), got[b][idx] / e[idx])
    for name in ("dd", "dr", "rd", "rr"):
        present = name in results
        for s in range(ns):
            ck.expect((getattr(cfs[s], name) is not None) == present, f"member:{name}:presence", f"expected present={present}")
    for name, i1, i2, auto, binned2 in prods:
        exp, amb, sw1, sw2 = results[name]
        for s in range(ns):
            member = getattr(cfs[s], name)
            if member is None:
                continue
            got = np.asarray(member.counts.get_array(), dtype=float)
            if got.shape != exp[s].shape:
                ck.fail(f"{name}:shape", f"{got.shape} vs {exp[s].shape}")
                continue
            ck.expect(bool(member.auto) == auto, f"{name}:auto-flag")
            e = exp[s].copy()
            if c["rweight"] is not None:
                for b in range(e.shape[0]):
                    k = const.get(b, (0.0, 0.0))[1]
                    e[b] *= k if k is not None and np.isfinite(k) else 0.0
            judged = ~amb[s]
            if name == "dd":
                off = e.sum(axis=0) * judged.all(axis=0)
                offd = off - np.diag(np.diag(off))
                if offd.sum() > 0 and np.diag(off).sum() > 0:
                    nontrivial = True
            if weighted:
                # (absolute part relative to the counts of all scales together: the library differences
                # cumulative counts over all scale limits, which leaves residues of that magnitude)
                per_bin = sum(np.abs(exp[k]).reshape(exp[k].shape[0], -1).max(axis=1) for k in range(ns))
                if c["rweight"] is not None:
                    per_bin = per_bin * np.array([abs(const.get(b, (0.0, 0.0))[1] or 0.0) if np.isfinite(const.get(b, (0.0, 0.0))[1] or 0.0) else 0.0 for b in range(len(per_bin))])
                good = np.isclose(got, e, rtol=1e-9, atol=1e-12 * np.maximum(1.0, per_bin)[:, None, None])
            else:
                good = got == e
            bad = judged & ~good
            if bad.any():
                b, i, j = [int(x[0]) for x in np.nonzero(bad)]
                if e[b, i, j] > 0 and got[b, i, j] == 0 and i != j:
                    kind = "lost-cross-patch-pairs"
                elif e[b, i, j] > got[b, i, j]:
                    kind = "lost-pairs" + (":diag" if i == j else ":cross-patch")
                else:
                    kind = "extra-pairs" + (":diag" if i == j else ":cross-patch")
                tag = ("auto" if auto else "cross") + (":rweight" if c["rweight"] is not None else "")
                ck.fail(f"counts:{kind}:{tag}", f"{name} scale {s} bin {b} patches ({i},{j}): got {got[b, i, j]!r}, expected {e[b, i, j]!r}; zmin={edges[0]:.4g} unit={c['unit']}")
            # weight sums
            g1 = np.asarray(member.sum_weights.sum_weights1, dtype=float)
            g2 = np.asarray(member.sum_weights.sum_weights2, dtype=float)
            if g1.shape != sw1.shape or not np.allclose(g1, sw1, rtol=1e-12, atol=0) or not np.allclose(g2, sw2, rtol=1e-12, atol=0):
                ck.fail(f"sum_weights:{'auto' if auto else 'cross'}", f"{name}: got {g1.tolist()} / {g2.tolist()}, expected {sw1.tolist()} / {sw2.tolist()}")
    ck.nontrivial = nontrivial
    if case["scene"].get("spacing") == np.pi:
        ck.cls("all-sky-patches")
    if case["scene"].get("derived"):
        ck.cls("centres-derived-from-first-catalog")
    ck.cls(f"mode:{case['mode']}", f"unit:{c['unit']}", f"method:{c['method']}", f"closed:{closed}", f"patches:{npatch if npatch < 10 else ('>=10' if npatch < 100 else '>=128')}", f"scales:{ns}")
    if c["rweight"] is not None:
        ck.cls("rweight", "res<8" if c["resolution"] + 1 + 2 * ns < 8 else "res>=8")
    elif len(set(c["rmin"]) | set(c["rmax"])) >= 8:
        ck.cls("non-cumulative-without-rweight")
    if edges[0] < 0.05:
        ck.cls("zmin<0.05")
    if edges[0] > 1.6:
        ck.cls("zmin>1.6")
    if any(amb.any() for _, amb, _, _ in results.values()):
        ck.cls("has-ambiguous-cells")
    b1 = pl.bin_membership(samples[0].z, edges, closed)
    if len(set(b1[b1 >= 0].tolist())) < len(edges) - 1:
        ck.cls("empty-bin")
    inside = np.zeros(npatch, dtype=bool)
    inside[samples[0].patch[b1 >= 0]] = True
    if not inside.all():
        ck.cls("patch-without-object-in-binning")
    base = case["scene"]["base"]
    if abs(abs(base[1]) - np.pi / 2) < 1e-6:
        ck.cls("pole")
    if base[0] < 1e-3 or base[0] > 2 * np.pi - 2e-3:
        ck.cls("ra-seam")


def run_case(case):
    ck = Checker()
    with Scratch() as tmp:
        try:
            cfg, cfs, cats = measure(case, tmp)
        except pl.SceneUnusable:
            return Result.discard("derived-centres-leave-a-patch-empty")
        except Exception as e:  # noqa
            ck.cls(f"mode:{case['mode']}")
            ck.nontrivial = True
            ck.fail(f"measure|{exc_sig(e)}", f"{type(e).__name__}: {e}")
            return ck.results()
        if compare(case, cfg, cfs, ck) == "discard":
            return Result.discard("equidistant-object")
        cfg2 = second_config(case, np.asarray(cfg.binning.edges, dtype=float))
        if cfg2 is not None and not ck.fails:
            case2 = dict(case, cfg=cfg2)
            try:
                cfg_b, cfs_b, _ = measure(case2, tmp, objs=cats)
            except Exception as e:  # noqa
                ck.fail(f"second-measurement:{case['again']}|{exc_sig(e)}", f"{type(e).__name__}: {e}")
                return ck.results()
            ck2 = Checker()
            compare(case2, cfg_b, cfs_b, ck2)
            for r in ck2.fails:
                ck.fail(f"second-measurement:{case['again']}:{r.sig}", r.detail)
            ck.nontrivial = ck.nontrivial or ck2.nontrivial
            ck.cls(f"second-measurement-on-same-catalogs:{case['again']}")
    return ck.results()


def components():
    return [Component("pipeline", case_strategy(), run_case, quick=800, thorough=24_000)]
