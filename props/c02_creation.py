"""
C02 — catalog creation stores every input record exactly once, unchanged.

Oracle: multiset comparison (bit patterns) of stored against input records, per
patch against an independent nearest-centre / patch-id assignment, after
reopening, and across (chunk size, worker count, delivery schedule, progress)
variants of the same input.
"""

from __future__ import annotations

import contextlib
import os

import numpy as np
from hypothesis import strategies as st

from vlib import gen, schedpool, sources
from vlib import pipeline as pl
from vlib.runner import Checker, Component, Result, Scratch, exc_sig

PROPERTY = "C02"
LEVEL = "exploration"
RULE = (
    "Hypothesis draws a table (n in 1..120 rows, column dtypes f8/f4/i4/i8, optional weight/redshift columns, degrees or radian), a "
    "source kind (DataFrame, FITS, HDF5, Parquet with row groups below/above the chunk size, random generator), a patch mode "
    "(centres / patch-id column / patch_num), a chunk size biased to n = k*c+{-1,0,1}, a worker count and -- for >1 worker -- a delivery "
    "schedule for the pool (harness-owned multiprocessing shim), plus a second (chunk size, workers, schedule, progress) variant. "
    "Oracle: stored multiset == input multiset (both directions), per-patch assignment by an independent nearest-centre computation, "
    "reopened catalog equal, variants equal. Non-trivial: n > chunk size and >= 2 patches; distinct = case digest."
    ' Extensions: hundreds of centres on a lattice, non-contiguous patch indices up to 32767, alternative file layouts (other accepted suffixes, FITS table in extension 2 via hdu=2, HDF5 datasets inside a group).'
)
ASSUMPTIONS = [
    "degrees->radian conversion is compared with numpy.deg2rad of the float64 value (<= 1 ulp of the exact product)",
    "patch_num: treecorr's k-means is not deterministic, so the catalog's own reported centres are the reference partition",
    "cases with an object equidistant (1e-12 in squared chord) from two centres are discarded",
    "the multiprocessing shim reproduces exactly the completion orders a real pool can produce; a real-pool subset cross-checks it",
]


@contextlib.contextmanager
def quiet_stderr():
    """the progress bar writes to the stderr captured at import time"""
    fd = os.dup(2)
    devnull = os.open(os.devnull, os.O_WRONLY)
    try:
        os.dup2(devnull, 2)
        yield
    finally:
        os.dup2(fd, 2)
        os.close(fd)
        os.close(devnull)


@st.composite
def chunksize_for(draw, n):
    k = draw(st.integers(1, 6))
    c = max(1, n // k + draw(st.sampled_from([-1, 0, 0, 1])))
    return draw(st.sampled_from([c, c, 1, n, n + 3, draw(st.integers(1, n + 3))]))


@st.composite
def variant(draw, n):
    workers = draw(st.sampled_from([1, 1, 2, 3, 5, n + 1]))
    return {
        "chunksize": draw(chunksize_for(n)),
        "workers": workers,
        "tape": draw(st.lists(st.integers(0, 7), max_size=24)) if workers > 1 else [],
        "progress": draw(st.sampled_from([False, False, True])),
    }


@st.composite
def table_case(draw, min_rows=1, max_rows=120, float_coords=False):
    n = draw(st.integers(min_rows, max_rows))
    degrees = draw(st.booleans())
    dt = {c: draw(st.sampled_from(["f8", "f8", "f8", "f4", "i4", "i8", "i2", "u2", "u4", "u1"])) for c in ("ra", "dec", "w", "z")}
    if float_coords:  # k-means needs distinct positions
        dt["ra"] = dt["dec"] = "f8"
    def col(name, lo, hi):
        if dt[name][0] in "iu":
            if dt[name][0] == "u":
                lo = max(lo, 0)
            if dt[name] == "u1":
                hi = min(hi, 255)
            return draw(st.lists(st.integers(int(np.ceil(lo)), int(np.floor(hi))), min_size=n, max_size=n))
        return draw(st.lists(gen.floats(lo, hi), min_size=n, max_size=n))
    if degrees:
        ra, dec = col("ra", 0.0, 359.999), col("dec", -90.0, 90.0)
    else:
        ra, dec = col("ra", 0.0, 6.28), col("dec", -1.57, 1.57)
    table = {"ra": ra, "dec": dec, "w": None, "z": None, "pid": None, "dtypes": dt}
    if draw(st.sampled_from([False, False, True])):
        table["index"] = list(draw(st.permutations(list(range(n)))))  # data frame with non-default row labels
    if draw(st.booleans()):
        table["w"] = col("w", 0.01 if dt["w"][0] not in "iu" else 1.0, 10.0)  # positive: a patch of total weight 0 has no defined centre
    if draw(st.booleans()):
        table["z"] = col("z", 0.0, 3.0)
    return n, degrees, table


@st.composite
def case_strategy(draw):
    mode = draw(st.sampled_from(["centers", "centers", "ids", "num"]))
    many_centres = mode == "centers" and draw(st.integers(0, 11)) == 11  # hundreds of centres
    if many_centres:
        scene = draw(gen.lattice_scene(draw(st.sampled_from([300, 257, 256, 129, 128]))))
        cat = scene["cats"][0]
        n, degrees = len(cat["ra"]), False
        table = {"ra": cat["ra"], "dec": cat["dec"], "w": cat["w"], "z": None, "pid": None, "dtypes": {c: "f8" for c in ("ra", "dec", "w", "z")}}
    else:
        n, degrees, table = draw(table_case(float_coords=mode == "num"))
    source = draw(st.sampled_from(["dataframe", "dataframe", "fits", "hdf5", "parquet"]))
    case = {"n": n, "degrees": degrees, "table": table, "source": source, "mode": mode}
    cols = sources.table_columns(table)
    if mode == "centers":
        # centres = positions of K distinct rows -> every centre attracts >= 1 object
        _, recs = sources.expected_records(table, degrees)
        uniq = np.unique(recs[:, :2], axis=0)
        K = draw(st.integers(1, min(draw(st.sampled_from([6, 6, 6, 13])), len(uniq))))  # sometimes two-digit patch ids
        idx = draw(st.lists(st.integers(0, len(uniq) - 1), min_size=K, max_size=K, unique=True))
        case["centers"] = uniq[idx].tolist()
        if many_centres:
            case["centers"] = scene["centers"]
        if draw(st.integers(0, 5)) == 0:
            # redundant patch-index column next to explicit centres: documented to be ignored
            table["pid"] = draw(st.lists(st.integers(0, K - 1), min_size=n, max_size=n))
            table["dtypes"]["pid"] = "i8"
            case["stale_pid"] = True
    elif mode == "ids":
        K = draw(st.integers(1, min(draw(st.sampled_from([6, 6, 6, 13])), n)))
        rest = draw(st.lists(st.integers(0, K - 1), min_size=n - K, max_size=n - K))
        pid = draw(st.permutations(list(range(K)) + rest))
        table["pid"] = list(pid)
        table["dtypes"]["pid"] = draw(st.sampled_from(["i8", "i4", "i2", "u2", "u1", "u4"]))
        if draw(st.integers(0, 4)) == 0:
            # patch indices need not be contiguous: any values in 0..32767 that the column type holds
            top = {"u1": 255, "i2": 32767}.get(table["dtypes"]["pid"], 32767)
            labels = draw(st.lists(st.one_of(st.integers(0, top), st.sampled_from([v for v in (127, 128, 255, 256, 32767) if v <= top])), min_size=K, max_size=K, unique=True))
            table["pid"] = [labels[i] for i in table["pid"]]
            case["sparse_ids"] = True
    else:
        if n < 12:
            case["mode"] = "centers"
            _, recs = sources.expected_records(table, degrees)
            case["centers"] = recs[:1, :2].tolist()
        else:
            case["patch_num"] = draw(st.integers(1, 3))
    case["row_group"] = draw(st.sampled_from([1, 3, 7, max(1, n // 2), n])) if source == "parquet" else None
    case["layout"] = draw(st.sampled_from(sources.FILE_LAYOUTS[source])) if source in sources.FILE_LAYOUTS else None
    case["a"] = draw(variant(n))
    case["b"] = draw(variant(n))
    # real multiprocessing cross-check; not with patch_num: the isolated child is forked from a
    # process that may have run treecorr's OpenMP threads, which libgomp does not survive
    case["real_pool"] = draw(st.integers(0, 24)) == 0 and case["a"]["workers"] in (2, 3) and case["mode"] != "num"
    return case


def create(case, var, tmp, name, tape_stats=None):
    from yaw import AngularCoordinates, Catalog

    table = case["table"]
    kw = dict(sources.column_names(table, use_pid=case["mode"] == "ids" or bool(case.get("stale_pid"))))
    if case.get("layout"):
        src, extra, prefix = sources.write_source(case["source"], table, tmp, row_group_size=case.get("row_group"), layout=case["layout"])
        kw = {k: prefix + v for k, v in kw.items()}
        kw.update(extra)
    else:
        src = sources.write_source(case["source"], table, tmp, row_group_size=case.get("row_group"))
    kw.update(degrees=case["degrees"], chunksize=var["chunksize"], progress=var["progress"], max_workers=var["workers"])
    if case["mode"] == "centers":
        kw["patch_centers"] = AngularCoordinates(np.array(case["centers"], dtype=float))
    elif case["mode"] == "num":
        kw["patch_num"] = case["patch_num"]
    path = tmp / name
    ctx = quiet_stderr() if var["progress"] else contextlib.nullcontext()
    with ctx:
        if var["workers"] > 1 and not (case.get("real_pool") and name == "a"):
            with schedpool.Patched(var["tape"]) as fake:
                cat = _create(Catalog, case, path, src, kw)
            if tape_stats is not None:
                tape_stats.append(fake)
        elif var["workers"] > 1:
            # real multiprocessing (uncontrolled schedule), isolated so that a library
            # deadlock cannot take the harness with it
            from vlib.isolate import run_isolated

            def job():
                import yaw.utils.parallel as par

                par._num_processes = lambda: 64
                _create(Catalog, case, path, src, kw)
                return None

            status, payload = run_isolated(job, bound=20.0)
            if status == "hung":
                raise RealPoolHang(payload)
            if status == "exc":
                raise RealPoolError(f"{payload[0]}: {payload[1]} @ {payload[3]}")
            if status != "ok":
                raise RealPoolInconclusive(f"{status}: {payload}")
            cat = Catalog(path, max_workers=1)
        else:
            cat = _create(Catalog, case, path, src, kw)
    return cat


class RealPoolHang(Exception):
    pass


class RealPoolError(Exception):
    pass


class RealPoolInconclusive(Exception):
    pass


def _create(Catalog, case, path, src, kw):
    if case["source"] == "dataframe":
        return Catalog.from_dataframe(path, src, **kw)
    return Catalog.from_file(path, src, **kw)


def run_case(case):
    from yaw import Catalog

    table = case["table"]
    n = case["n"]
    names, exp = sources.expected_records(table, case["degrees"])
    ck = Checker(classes=[f"source:{case['source']}", f"mode:{case['mode']}", "degrees" if case["degrees"] else "radian"] + (["centres+stale-patch-column"] if case.get("stale_pid") else []) + (["non-contiguous-patch-ids"] if case.get("sparse_ids") else []) + ([f"file-layout:{','.join(f'{k}={v}' for k, v in case['layout'].items())}"] if case.get("layout") else []))
    for c in ("ra", "dec"):
        ck.cls(f"dtype:{table['dtypes'][c]}")
    if case["mode"] == "centers":
        # precondition (C09/C12 domain): every centre attracts an object, no object is equidistant
        cen = np.array(case["centers"], dtype=float)
        want0, margin0 = pl.nearest_centre(pl.to_xyz(exp[:, 0], exp[:, 1]), pl.to_xyz(cen[:, 0], cen[:, 1]))
        if margin0.min() < 1e-12:
            return Result.discard("equidistant-object")
        if len(set(want0.tolist())) != len(cen):
            return Result.discard("centre-without-object")
    with Scratch() as tmp:
        fakes = []
        try:
            cat_a = create(case, case["a"], tmp, "a", fakes)
        except RealPoolInconclusive as e:
            return Result.discard("real-pool-inconclusive")
        except RealPoolHang as e:
            ck.fail("create:real-pool:hang", str(e))
            return ck.results()
        except Exception as e:  # noqa
            if case["mode"] == "num" and ("contains no data" in str(e) or "writer process failed" in str(e) or "infs or NaNs" in str(e)):
                return Result.discard("kmeans-empty-patch")  # k-means produced an empty / NaN centre: degenerate probe
            ck.fail(f"create|{exc_sig(e)}", f"{type(e).__name__}: {e}")
            return ck.results()
        stored = sources.stored_records(cat_a)
        npatch = len(stored)
        c = case["a"]["chunksize"]
        ck.nontrivial = n > c and npatch >= 2
        ck.cls("n%c==0" if n % c == 0 else ("n%c==1" if n % c == 1 else ("n%c==c-1" if n % c == c - 1 else "n%c:other")))
        if c == 1:
            ck.cls("chunksize=1")
        if case["a"]["workers"] > 1:
            ck.cls("workers>1", "real-pool" if case.get("real_pool") else ("schedule:non-identity" if fakes and fakes[0].tape.nontrivial else "schedule:identity"))
        if case["a"]["progress"]:
            ck.cls("progress")

        # ---- every record exactly once, unchanged
        allrec = np.concatenate(list(stored.values())) if stored else np.empty((0, exp.shape[1]))
        if allrec.shape[1] != exp.shape[1]:
            ck.fail("columns", f"stored {allrec.shape[1]} columns, expected {names}")
            return ck.results()
        ms_store, ms_exp = sources.multiset(allrec), sources.multiset(exp)
        if ms_store != ms_exp:
            if len(allrec) < len(exp):
                ck.fail("records:lost", f"{len(exp) - len(allrec)} of {len(exp)} records missing (chunksize {c}, workers {case['a']['workers']})")
            elif len(allrec) > len(exp):
                ck.fail("records:duplicated", f"{len(allrec) - len(exp)} extra records")
            else:
                # same number: values changed? allow <= 1 ulp on coordinates
                a = allrec[np.lexsort(allrec.T[::-1])]
                b = exp[np.lexsort(exp.T[::-1])]
                coords_ok = np.all(np.abs(a[:, :2] - b[:, :2]) <= 2 * np.spacing(np.abs(b[:, :2])))
                rest_ok = np.array_equal(a[:, 2:], b[:, 2:])
                ck.expect(coords_ok and rest_ok, "records:changed", "stored values differ from input values")
        # ---- patch assignment
        if case["mode"] == "ids":
            want = np.asarray(table["pid"], dtype=int)
        else:
            centers = np.array(case["centers"], dtype=float) if case["mode"] == "centers" else np.asarray(cat_a.get_centers().data)
            if case["mode"] == "centers":
                ck.expect(sorted(stored) == list(range(len(centers))), "patches:ids-not-0..N-1", f"{sorted(stored)} for {len(centers)} centres")
            want, margin = pl.nearest_centre(pl.to_xyz(exp[:, 0], exp[:, 1]), pl.to_xyz(centers[:, 0], centers[:, 1]))
            if margin.min() < 1e-12:
                return Result.discard("equidistant-object")
            if case["mode"] == "num":
                want = np.asarray(sorted(stored))[want] if len(stored) == len(centers) else want
        for pid in sorted(set(want.tolist()) | set(stored)):
            got = sources.multiset(stored.get(pid, np.empty((0, exp.shape[1]))))
            if got != sources.multiset(exp[want == pid]):
                ck.fail(f"assignment:{case['mode']}", f"patch {pid}: {len(got)} stored vs {int((want == pid).sum())} expected records")
                break
        # ---- reopen
        try:
            re = Catalog(tmp / "a", max_workers=1)
            st2 = sources.stored_records(re)
            ck.expect(sorted(st2) == sorted(stored) and all(sources.multiset(st2[k]) == sources.multiset(stored[k]) for k in stored), "reopen:differs")
        except Exception as e:  # noqa
            ck.fail(f"reopen|{exc_sig(e)}", f"{type(e).__name__}: {e}")
        # ---- variant b: same per-patch multisets
        try:
            cat_b = create(case, case["b"], tmp, "b", fakes)
            sb = sources.stored_records(cat_b)
            if case["mode"] == "num":
                same = sources.multiset(np.concatenate(list(sb.values())) if sb else np.empty((0, exp.shape[1]))) == ms_store
            else:
                same = sorted(sb) == sorted(stored) and all(sources.multiset(sb[k]) == sources.multiset(stored[k]) for k in stored)
            ck.expect(same, "variant:differs", f"a={case['a']} b={case['b']}")
        except Exception as e:  # noqa
            if not (case["mode"] == "num" and ("contains no data" in str(e) or "writer process failed" in str(e) or "infs or NaNs" in str(e))):
                ck.fail(f"create-variant|{exc_sig(e)}", f"{type(e).__name__}: {e}")
    return ck.results()


# --------------------------------------------------------------------------
# random generator as a source
# --------------------------------------------------------------------------
@st.composite
def random_case(draw):
    n = draw(st.integers(1, 150))
    ra0 = draw(gen.floats(0.0, 300.0))
    dec0 = draw(gen.floats(-90.0, 60.0))
    case = {
        "n": n,
        "window": [ra0, ra0 + draw(gen.floats(1.0, 59.0)), dec0, dec0 + draw(gen.floats(1.0, 29.0))],
        "seed": draw(st.integers(0, 2**31 - 1)),
        "w": draw(st.one_of(st.none(), st.lists(gen.floats(0.1, 5.0), min_size=1, max_size=8))),
        "a": draw(variant(n)),
    }
    case["z"] = draw(st.one_of(st.none(), st.lists(gen.floats(0.01, 2.0), min_size=len(case["w"]) if case["w"] else 1, max_size=len(case["w"]) if case["w"] else 8)))
    return case


def run_random(case):
    from yaw import AngularCoordinates, Catalog
    from yaw.randoms import BoxRandoms

    log = []

    class Recording(BoxRandoms):
        def reseed(self, seed=None):
            log.clear()
            return super().reseed(seed)

        def __call__(self, probe_size):
            chunk = super().__call__(probe_size)
            log.append(np.array(chunk))
            return chunk

    n = case["n"]
    win = case["window"]
    gen_ = Recording(*win, weights=None if case["w"] is None else np.array(case["w"]), redshifts=None if case["z"] is None else np.array(case["z"]), seed=case["seed"])
    centre = AngularCoordinates(np.deg2rad([[0.5 * (win[0] + win[1]), 0.5 * (win[2] + win[3])], [win[0], win[2]]]))
    var = case["a"]
    ck = Checker(n > var["chunksize"], classes=["random", "workers>1" if var["workers"] > 1 else "workers=1"])
    with Scratch() as tmp:
        try:
            ctx = quiet_stderr() if var["progress"] else contextlib.nullcontext()
            with ctx:
                if var["workers"] > 1:
                    with schedpool.Patched(var["tape"]):
                        cat = Catalog.from_random(tmp / "r", gen_, n, patch_centers=centre, chunksize=var["chunksize"], max_workers=var["workers"], progress=var["progress"])
                else:
                    cat = Catalog.from_random(tmp / "r", gen_, n, patch_centers=centre, chunksize=var["chunksize"], max_workers=1, progress=var["progress"])
        except Exception as e:  # noqa
            emitted = np.concatenate(log) if log else np.empty(0)
            if len(emitted):
                cen = np.asarray(centre.data)
                want, _ = pl.nearest_centre(pl.to_xyz(emitted["ra"], emitted["dec"]), pl.to_xyz(cen[:, 0], cen[:, 1]))
                if len(set(want.tolist())) != len(cen):
                    return Result.discard("centre-without-object")
            ck.fail(f"create-random|{exc_sig(e)}", f"{type(e).__name__}: {e}")
            return ck.results()
        stored = sources.stored_records(cat)
        emitted = np.concatenate(log) if log else np.empty(0)
        exp = np.column_stack([emitted[name] for name in emitted.dtype.names]) if len(emitted) else np.empty((0, 2))
        allrec = np.concatenate(list(stored.values())) if stored else np.empty((0, exp.shape[1]))
        ck.expect(len(allrec) == n, "random:count", f"{len(allrec)} stored for {n} requested (chunksize {var['chunksize']})")
        ck.expect(sources.multiset(allrec) == sources.multiset(exp), "random:records-differ-from-emitted", f"{len(allrec)} stored vs {len(exp)} emitted")
    return ck.results()


# --------------------------------------------------------------------------
# buffer size of the patch writers (reachable through yaw.catalog.catalog.write_patches)
# --------------------------------------------------------------------------
@st.composite
def buffer_case(draw):
    n, degrees, table = draw(table_case(min_rows=2, max_rows=80))
    _, recs = sources.expected_records(table, degrees)
    uniq = np.unique(recs[:, :2], axis=0)
    K = draw(st.integers(1, min(4, len(uniq))))
    idx = draw(st.lists(st.integers(0, len(uniq) - 1), min_size=K, max_size=K, unique=True))
    # chunk sizes biased to many small chunks; buffer sizes around small multiples of what one chunk
    # contributes to a patch, so that a writer holds several shards when it decides to flush
    c = draw(st.one_of(chunksize_for(n), st.integers(1, 4)))
    per_patch = max(1, c // K)
    return {"n": n, "degrees": degrees, "table": table, "centers": uniq[idx].tolist(), "chunksize": c,
            "buffersize": draw(st.sampled_from([-1, 0, 1, 2, 3, 7, n, 10 * n] + [m * per_patch + d for m in (2, 3, 4, 5) for d in (0, 1)])), "workers": draw(st.sampled_from([1, 1, 3])), "tape": draw(st.lists(st.integers(0, 5), max_size=10))}


def run_buffer(case):
    import pandas as pd

    from yaw import AngularCoordinates, Catalog
    from yaw.catalog.catalog import write_patches
    from yaw.catalog.readers import DataFrameReader

    table = case["table"]
    names, exp = sources.expected_records(table, case["degrees"])
    cen = np.array(case["centers"], dtype=float)
    want, margin = pl.nearest_centre(pl.to_xyz(exp[:, 0], exp[:, 1]), pl.to_xyz(cen[:, 0], cen[:, 1]))
    if margin.min() < 1e-12:
        return Result.discard("equidistant-object")
    if len(set(want.tolist())) != len(cen):
        return Result.discard("centre-without-object")
    b = case["buffersize"]
    ck = Checker(case["n"] > case["chunksize"] and 0 < b < case["n"], classes=[f"buffersize:{'-1' if b < 0 else ('0' if b == 0 else ('<n' if b < case['n'] else '>=n'))}", f"workers:{case['workers']}"])
    with Scratch() as tmp:
        try:
            reader = DataFrameReader(pd.DataFrame(sources.table_columns(table)), chunksize=case["chunksize"], degrees=case["degrees"], **{k: v for k, v in sources.column_names(table).items()})
            centers = AngularCoordinates(cen)
            if case["workers"] > 1:
                with schedpool.Patched(case["tape"]):
                    write_patches(tmp / "c", reader, centers, overwrite=False, progress=False, max_workers=case["workers"], buffersize=b)
            else:
                write_patches(tmp / "c", reader, centers, overwrite=False, progress=False, max_workers=1, buffersize=b)
            cat = Catalog(tmp / "c", max_workers=1)
        except Exception as e:  # noqa
            ck.fail(f"write_patches|{exc_sig(e)}", f"buffersize={b}: {type(e).__name__}: {e}")
            return ck.results()
        stored = sources.stored_records(cat)
        for pid in sorted(set(want.tolist()) | set(stored)):
            got = sources.multiset(stored.get(pid, np.empty((0, exp.shape[1]))))
            if got != sources.multiset(exp[want == pid]):
                ck.fail("buffersize:records-differ", f"buffersize={b}, chunksize={case['chunksize']}: patch {pid} holds {len(got)} records, expected {int((want == pid).sum())}")
                break
    return ck.results()


def components():
    return [
        Component("create", case_strategy(), run_case, quick=1000, thorough=30_000),
        Component("random", random_case(), run_random, quick=300, thorough=8_000),
        Component("buffers", buffer_case(), run_buffer, quick=1500, thorough=10_000),
    ]
