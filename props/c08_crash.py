"""
C08 — a crash never leaves a cache that is silently wrong.

Fault enumeration over crash points: every workload instance is traced once to
list its file-system syscalls on the cache paths; then the process is killed
(SIGKILL, injected by strace on syscall entry) at *every* such point.  Each
distinct surviving directory tree is handed to the oracle, which uses it the
way a user would after a crash.
"""

from __future__ import annotations

import copy
import shutil
from pathlib import Path

import numpy as np
from hypothesis import strategies as st

from vlib import crash, gen, sources
from vlib import pipeline as pl
from vlib.runner import Checker, Component, HarnessError, Result, Scratch, exc_sig

PROPERTY = "C08"
LEVEL = "fault_enumeration"
RULE = (
    "Hypothesis draws a cache-writing workload (create a catalog; overwrite a complete catalog with/without trees; first open that computes "
    "patch metadata; build trees; rebuild trees with other edges of the same count / other count / other closed side / binned<->unbinned / "
    "force (same binning, other edges, other closed side); a whole crosscorrelate; CorrFunc.to_file and CorrData.to_files onto a free path or onto an older, different product) with small "
    "generated inputs. The workload is traced (strace) to enumerate its file-system syscalls on the cache paths (openat, write, pwrite64, "
    "mkdir, unlink(at), rmdir, rename*, ftruncate) and then killed with SIGKILL on entry of every one of them -- i.e. at every point between "
    "two file-system operations, each exactly once. Oracle per distinct surviving tree: Catalog(path) raises or holds a complete record set "
    "(new, or old for an interrupted overwrite); auto- and cross-measurements with the interrupted and the previous binning raise or equal "
    "those from fresh caches; result files raise or equal the old or the new product as a whole. Non-trivial: surviving tree differs from "
    "both the prior and the completed state; distinct = (case, surviving tree hash)."
)
ASSUMPTIONS = [
    "process death only: the surviving state is a prefix of the syscall sequence (no power-loss reordering, no torn single write)",
    "sequential mode (one process); fault behaviour of the multi-process pipeline is covered by C09",
    "the oracle runs in an isolated child: an interpreter crash or hang while using the surviving state is a violation",
]

WORKLOADS = ["create", "overwrite", "overwrite_trees", "meta", "trees", "retrees_edges", "retrees_count", "retrees_closed", "retrees_unbinned", "retrees_binned", "retrees_force", "retrees_force_edges", "retrees_force_closed", "retrees_twice", "measure", "corrfunc_new", "corrfunc_over", "corrdata_new", "corrdata_over"]


@st.composite
def small_catalog(draw, K, base_ra):
    """records near K centres placed along RA (radian)"""
    n = draw(st.integers(K, 2 * K + 1))
    pid = list(range(K)) + draw(st.lists(st.integers(0, K - 1), min_size=n - K, max_size=n - K))
    ra = [base_ra + 0.05 * p + draw(gen.floats(-0.01, 0.01)) for p in pid]
    dec = [draw(gen.floats(-0.01, 0.01)) for _ in pid]
    z = draw(st.lists(gen.floats(0.1, 1.0), min_size=n, max_size=n))
    w = draw(st.one_of(st.none(), st.lists(st.sampled_from([1.0, 2.0, 0.5]), min_size=n, max_size=n)))
    return {"ra": ra, "dec": dec, "z": z, "w": w}


@st.composite
def case_strategy(draw, workloads=WORKLOADS):
    wl = draw(st.sampled_from(workloads))
    K = draw(st.integers(3, 4)) if wl == "retrees_twice" else draw(st.integers(1, 2 if wl == "measure" else 3))
    centers = [[1.0 + 0.05 * p, 0.0] for p in range(K)]
    case = {"workload": wl, "K": K, "centers": centers, "new": draw(small_catalog(K, 1.0)), "old": draw(small_catalog(K, 1.0)), "other": draw(small_catalog(K, 1.0))}
    # prior catalog of an overwrite may have fewer patches than the new one; creation may span several chunks
    case["K_old"] = draw(st.integers(1, K))
    case["chunksize"] = draw(st.sampled_from([None, None, 2, 3]))
    case["edges_a"] = [0.1, 0.4, 0.7, 1.0]
    case["edges_b"] = {"retrees_edges": [0.1, 0.5, 0.8, 1.0], "retrees_force_edges": [0.1, 0.5, 0.8, 1.0], "retrees_count": [0.1, 0.4, 1.0], "overwrite_trees": [0.1, 0.4, 0.7, 1.0]}.get(wl, [0.1, 0.55, 1.0])
    case["closed_a"] = draw(gen.closed_strategy)
    case["prefix"] = draw(st.sampled_from(["nz_z0.2-1.4", "product", "result.v2", "product"]))  # file-name stems with and without dots
    if wl.startswith("corr"):
        case["product_new"] = draw(gen.corrfunc_case(max_bins=3, max_patches=3)) if wl.startswith("corrfunc") else draw(gen.sampled_case(max_bins=3, max_samples=3))
        if wl.startswith("corrfunc"):
            case["product_old"] = draw(gen.corrfunc_case(max_bins=3, max_patches=3))
        else:
            # an older product of the same shape is the dangerous prior state (a mixture of old and
            # new files stays loadable); other shapes only with probability 1/4
            same = draw(st.integers(0, 3)) != 0
            case["product_old"] = draw(gen.sampled_case(binning=case["product_new"]["binning"] if same else None, nsamp=len(case["product_new"]["samples"]) if same else None, max_bins=3, max_samples=3))
    return case


def flip(closed):
    return "left" if closed == "right" else "right"


def cfg_for(edges, closed):
    return pl.make_config({"edges": list(edges), "closed": closed, "zmin": None, "zmax": None, "num_bins": None, "method": "custom", "rmin": [0.001], "rmax": [0.03], "unit": "rad", "cosmology": "Planck15", "rweight": None, "resolution": None})


def measurements(cat, fresh_other, cfgs):
    """what a user would compute next: auto (binned trees) and cross with the
    catalog in the unbinned role; returns dict name -> arrays or ('raised', type)"""
    import yaw

    out = {}
    for name, cfg in cfgs.items():
        for kind in ("auto", "cross"):
            try:
                if kind == "auto":
                    cf = yaw.autocorrelate(cfg, cat, cat, count_rr=False, max_workers=1)[0]
                    arr = [np.asarray(cf.dd.counts.counts), np.asarray(cf.dr.counts.counts), np.asarray(cf.dd.sum_weights.sum_weights1)]
                else:
                    cf = yaw.crosscorrelate(cfg, fresh_other, cat, unk_rand=cat, max_workers=1)[0]
                    arr = [np.asarray(cf.dd.counts.counts), np.asarray(cf.dr.counts.counts), np.asarray(cf.dd.sum_weights.sum_weights2)]
                out[f"{kind}:{name}"] = ("ok", [a.tolist() for a in arr])
            except Exception as e:  # noqa
                out[f"{kind}:{name}"] = ("raised", f"{type(e).__name__}: {e}"[:200])
    return out


def records_of(catalog):
    st_ = sources.stored_records(catalog)
    return sources.multiset(np.concatenate(list(st_.values()))) if st_ else []


def expected_multiset(cat):
    cols = [np.asarray(cat["ra"], float), np.asarray(cat["dec"], float)]
    if cat.get("w") is not None:
        cols.append(np.asarray(cat["w"], float))
    if cat.get("z") is not None:
        cols.append(np.asarray(cat["z"], float))
    return sources.multiset(np.column_stack(cols))


def evaluate_catalog_state(path, case, allowed, cfgs, scratch):
    """runs inside an isolated child; returns a verdict dict"""
    from yaw import Catalog

    verdict = {"open": None, "records": None, "measure": None}
    try:
        cat = Catalog(path, max_workers=1)
    except Exception as e:  # noqa
        verdict["open"] = f"raised {type(e).__name__}"
        return verdict
    verdict["open"] = "ok"
    try:
        ms = records_of(cat)
    except Exception as e:  # noqa
        verdict["records"] = f"raised {type(e).__name__}"
        return verdict
    which = [name for name, m in allowed.items() if m == ms]
    if not which:
        verdict["records"] = f"WRONG: {len(ms)} records in patches {sorted(cat.keys())}, allowed {[(k, len(v)) for k, v in allowed.items()]}"
        return verdict
    verdict["records"] = which[0]
    src = case[which[0]]
    # the prior catalog of an overwrite was created on the first K_old centres only
    centers = case["centers"][: case.get("K_old", case["K"])] if which[0] == "old" else case["centers"]
    fresh = pl.make_catalog(scratch / "fresh_same", src, centers)
    other = pl.make_catalog(scratch / "fresh_other", case["other"], centers)
    other2 = pl.make_catalog(scratch / "fresh_other2", case["other"], centers)
    got = measurements(cat, other, cfgs)
    exp = measurements(fresh, other2, cfgs)
    bad = {}
    for k in got:
        if got[k][0] == "raised":
            continue
        if exp[k][0] != "ok" or got[k][1] != exp[k][1]:
            bad[k] = (str(got[k][1])[:300], str(exp[k][1])[:300])
    verdict["measure"] = bad or "ok"
    return verdict


def run_case(case):
    import pandas as pd  # noqa

    from vlib.isolate import run_isolated
    from yaw import Catalog, CorrData, CorrFunc

    if not crash.have_strace():
        raise HarnessError("strace not available")
    wl = case["workload"]
    ck = Checker(classes=[f"workload:{wl}"])
    ck.n_eval = 0
    ck.digests = []
    with Scratch() as tmp:
        template = tmp / "template"
        world = tmp / "world"
        template.mkdir()
        cat_path = world / "cat"
        closed_a = case["closed_a"]
        cfgs = {"a": cfg_for(case["edges_a"], closed_a), "b": cfg_for(case["edges_b"], closed_a), "a_flipped": cfg_for(case["edges_a"], flip(closed_a))}
        allowed = {"new": expected_multiset(case["new"])}
        # ---------------- prior state (built in the template, copied for every crash point)
        try:
            tcat = template / "cat"
            if wl in ("overwrite", "overwrite_trees"):
                # the old catalog lives on the first K_old centres only
                ko = case.get("K_old", case["K"])
                cen_o = np.array(case["centers"][:ko], float)
                c0 = pl.make_catalog(tcat, case["old"], cen_o)
                allowed["old"] = expected_multiset(case["old"])
                if wl == "overwrite_trees":
                    c0.build_trees(case["edges_a"], closed=closed_a, max_workers=1)
            elif wl in ("meta", "trees", "measure") or wl.startswith("retrees"):
                c0 = pl.make_catalog(tcat, case["new"], case["centers"])
                if wl == "meta":
                    for m in tcat.glob("patch_*/meta.yml"):
                        m.unlink()
                if wl.startswith("retrees") and wl != "retrees_binned":
                    c0.build_trees(case["edges_a"], closed=closed_a, max_workers=1)
                if wl == "retrees_binned":
                    c0.build_trees(None, max_workers=1)
                if wl == "measure":
                    pl.make_catalog(template / "unk", case["other"], case["centers"])
            elif wl in ("corrfunc_over", "corrdata_over"):
                if wl == "corrfunc_over":
                    gen.build_corrfunc(case["product_old"]).to_file(template / "product.hdf5")
                else:
                    gen.build_sampled(case["product_old"]).to_files(template / case.get("prefix", "product"))
        except Exception as e:  # noqa
            ck.n_eval = 1
            ck.fail(f"prior-state|{exc_sig(e)}", f"{type(e).__name__}: {e}")
            return ck.results()

        # ---------------- the workload (runs in a forked child)
        def workload():
            if wl == "create":
                pl.make_catalog(cat_path, case["new"], case["centers"], chunksize=case.get("chunksize"))
            elif wl in ("overwrite", "overwrite_trees"):
                pl.make_catalog(cat_path, case["new"], case["centers"], overwrite=True, chunksize=case.get("chunksize"))
            elif wl == "meta":
                Catalog(cat_path, max_workers=1)
            elif wl == "trees":
                Catalog(cat_path, max_workers=1).build_trees(case["edges_a"], closed=closed_a, max_workers=1)
            elif wl in ("retrees_edges", "retrees_count"):
                Catalog(cat_path, max_workers=1).build_trees(case["edges_b"], closed=closed_a, max_workers=1)
            elif wl == "retrees_closed":
                Catalog(cat_path, max_workers=1).build_trees(case["edges_a"], closed=flip(closed_a), max_workers=1)
            elif wl == "retrees_unbinned":
                Catalog(cat_path, max_workers=1).build_trees(None, max_workers=1)
            elif wl == "retrees_binned":
                Catalog(cat_path, max_workers=1).build_trees(case["edges_a"], closed=closed_a, max_workers=1)
            elif wl == "retrees_force":
                Catalog(cat_path, max_workers=1).build_trees(case["edges_a"], closed=closed_a, force=True, max_workers=1)
            elif wl == "retrees_force_edges":
                # forced rebuild for *another* binning: the forced path must invalidate the old label too
                Catalog(cat_path, max_workers=1).build_trees(case["edges_b"], closed=closed_a, force=True, max_workers=1)
            elif wl == "retrees_force_closed":
                Catalog(cat_path, max_workers=1).build_trees(case["edges_a"], closed=flip(closed_a), force=True, max_workers=1)
            elif wl == "retrees_twice":
                # phase 1: rebuild for the other binning; phase 2 (after the first crash): back again
                edges = case["edges_b"] if phase[0] == 1 else case["edges_a"]
                Catalog(cat_path, max_workers=1).build_trees(edges, closed=closed_a, max_workers=1)
            elif wl == "measure":
                import yaw

                ref = Catalog(cat_path, max_workers=1)
                unk = Catalog(world / "unk", max_workers=1)
                yaw.crosscorrelate(cfgs["a"], ref, unk, unk_rand=unk, max_workers=1)
            elif wl.startswith("corrfunc"):
                gen.build_corrfunc(case["product_new"]).to_file(world / "product.hdf5")
            elif wl.startswith("corrdata"):
                gen.build_sampled(case["product_new"]).to_files(world / case.get("prefix", "product"))

        phase = [1]

        def reset_world(src=None):
            shutil.rmtree(world, ignore_errors=True)
            shutil.copytree(src or template, world)

        if wl == "retrees_twice":
            # two successive interrupted rebuilds: the first one dies late, the second one (back to the
            # first binning) early, which leaves patches of one catalog in different states
            try:
                def points(src, fractions):
                    reset_world(src)
                    paths, status = crash.discover(workload, world, tmp)
                    if status != 0:
                        return None, None
                    reset_world(src)
                    events, _ = crash.count(workload, paths, tmp)
                    idx = {min(len(events) - 1, int(f * len(events))) for f in fractions} if events else set()
                    # plus every point right after a patch's new label was published, i.e. between two patches
                    idx |= {i + 1 for i, (kind, n, line) in enumerate(events[:-1]) if kind.startswith("rename") and "binning" in line}
                    return paths, [events[i] for i in sorted(idx)]

                paths1, ev1 = points(template, (0.93,))
                if ev1 is None:
                    ck.n_eval = 1
                    ck.fail(f"workload-failed-uncrashed:{wl}", "phase 1")
                    return ck.results()
                stage = tmp / "after_first_crash"
                for kind1, n1, line1 in ev1:
                    phase[0] = 1
                    reset_world(template)
                    killed, _ = crash.kill_at(workload, paths1, kind1, n1, tmp)
                    if not killed:
                        continue
                    shutil.rmtree(stage, ignore_errors=True)
                    shutil.copytree(world, stage)
                    phase[0] = 2
                    paths2, ev2 = points(stage, (0.1,))
                    if ev2 is None:
                        continue  # the second rebuild refuses the damaged cache: loud, fine
                    for kind2, n2, line2 in ev2:
                        reset_world(stage)
                        killed, _ = crash.kill_at(workload, paths2, kind2, n2, tmp)
                        ck.n_eval += 1
                        if not killed:
                            continue
                        ck.digests.append(crash.tree_state(world)[:12])
                        where = f"first rebuild killed before {kind1}#{n1}, rebuild back killed before {kind2}#{n2}: {line2[:80]}"
                        scratch = tmp / "oracle"
                        shutil.rmtree(scratch, ignore_errors=True)
                        scratch.mkdir()
                        status_, verdict = run_isolated(evaluate_catalog_state, (cat_path, case, allowed, cfgs, scratch), bound=60.0)
                        if status_ == "hung":
                            ck.fail(f"oracle-hang:{wl}", where)
                        elif status_ in ("died", "exc"):
                            ck.fail(f"oracle-crash:{wl}:{status_}", f"{where}: {verdict}")
                        elif status_ == "ok":
                            if verdict["records"] and str(verdict["records"]).startswith("WRONG"):
                                ck.fail(f"catalog-opens-with-wrong-records:{wl}", f"{where}: {verdict['records']}")
                            elif isinstance(verdict["measure"], dict):
                                keys = sorted(verdict["measure"])
                                ck.fail(f"measurement-silently-wrong:{wl}:{'+'.join(k.split(':')[0] for k in keys[:1])}", f"{where}: {keys} e.g. {verdict['measure'][keys[0]]}")
            except crash.StraceUnavailable as e:
                raise HarnessError(str(e))
            ck.nontrivial = len(ck.digests) > 0
            ck.n_eval = max(ck.n_eval, 1)
            return ck.results()

        # ---------------- enumerate crash points
        try:
            reset_world()
            prior_state = crash.tree_state(world)
            paths, status = crash.discover(workload, world, tmp)
            if status != 0:
                ck.n_eval = 1
                ck.fail(f"workload-failed-uncrashed:{wl}", f"exit status {status}")
                return ck.results()
            reset_world()
            events, status = crash.count(workload, paths, tmp)
            final_state = crash.tree_state(world)
        except crash.StraceUnavailable as e:
            raise HarnessError(str(e))
        ck.cls(f"crash-points:{min(len(events) // 10 * 10, 200)}+")
        seen = {}
        for kind, n, line in events:
            reset_world()
            killed, status = crash.kill_at(workload, paths, kind, n, tmp)
            ck.n_eval += 1
            if not killed:
                ck.cls("kill-not-delivered")
                continue
            state = crash.tree_state(world)
            if state in seen:
                continue
            seen[state] = (kind, n, line)
            if state not in (prior_state, final_state):
                ck.digests.append(state[:12])
            # ---------------- oracle on the surviving state
            where = f"killed before {kind}#{n}: {line[:100]}"
            if wl.startswith("corrfunc"):
                try:
                    back = CorrFunc.from_file(world / "product.hdf5")
                    okn = back == gen.build_corrfunc(case["product_new"])
                    oko = wl == "corrfunc_over" and back == gen.build_corrfunc(case["product_old"])
                    ck.expect(okn or oko, f"result-file:mixture-or-partial:{wl}", where)
                except Exception:  # noqa
                    pass
                continue
            if wl.startswith("corrdata"):
                try:
                    back = CorrData.from_files(world / case.get("prefix", "product"))
                    from props.c11_roundtrip import text_close

                    def matches(prod):
                        return all(text_close(prod[k], getattr(back, k))[0] for k in ("data", "samples")) and text_close(prod["binning"]["edges"], back.binning.edges)[0] and str(back.binning.closed) == prod["binning"]["closed"]

                    okn = matches(case["product_new"])
                    oko = wl == "corrdata_over" and matches(case["product_old"])
                    ck.expect(okn or oko, f"result-file:mixture-or-partial:{wl}", where + f" -> data {back.data.tolist()} samples {back.samples.tolist()}")
                except Exception:  # noqa
                    pass
                continue
            scratch = tmp / "oracle"
            shutil.rmtree(scratch, ignore_errors=True)
            scratch.mkdir()
            status_, verdict = run_isolated(evaluate_catalog_state, (cat_path, case, allowed, cfgs, scratch), bound=60.0)
            if status_ == "hung":
                ck.fail(f"oracle-hang:{wl}", where)
            elif status_ in ("died", "exc"):
                ck.fail(f"oracle-crash:{wl}:{status_}", f"{where}: {verdict}")
            elif status_ == "ok":
                if verdict["records"] and str(verdict["records"]).startswith("WRONG"):
                    ck.fail(f"catalog-opens-with-wrong-records:{wl}", f"{where}: {verdict['records']}")
                elif isinstance(verdict["measure"], dict):
                    keys = sorted(verdict["measure"])
                    ck.fail(f"measurement-silently-wrong:{wl}:{'+'.join(k.split(':')[0] for k in keys[:1])}", f"{where}: {keys} e.g. {verdict['measure'][keys[0]]}")
        ck.nontrivial = len(ck.digests) > 0
        ck.n_eval = max(ck.n_eval, 1)
    return ck.results()


def components():
    # one component per workload so that every tier covers every workload
    # result-file workloads have few crash points: more instances of them in the quick tier
    return [Component(f"crash_{wl}", case_strategy(workloads=[wl]), run_case, quick=6 if wl.startswith("corr") else 2, thorough=80 if wl.startswith("corr") else 40, shards=8, quick_shards=3 if wl.startswith("corr") else 2) for wl in WORKLOADS]
