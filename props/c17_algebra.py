"""
C17 — pair-count and data containers obey their documented algebra and indexing.

Generated: containers of every kind (PatchedCounts, PatchedSumWeights,
NormalisedCounts, CorrFunc with every optional-member subset, CorrData), a
compatible partner, an incompatible partner, scalars and index expressions.
Oracle: numpy sub-arrays / sums computed directly from the generated arrays.
"""

from __future__ import annotations

import copy

import numpy as np
from hypothesis import strategies as st

from vlib import gen
from vlib.runner import exc_sig, Checker, Component, Result

PROPERTY = "C17"
LEVEL = "exploration"
RULE = (
    "Hypothesis builds a container (kind in PatchedCounts/PatchedSumWeights/NormalisedCounts/CorrFunc/CorrData, "
    "1-5 bins, 1-6 patches, auto/cross, sparse counts, every dd+{dr,rd,rr} subset), a compatible partner, an "
    "incompatibility kind, a scalar and an index/slice; oracle = numpy arithmetic and sub-arrays of the generated "
    "arrays. Non-trivial: >=2 bins and >=3 patches and an index selection that is neither the first element nor the "
    "full range; distinct = distinct case digest."
    ' Extensions: operand a also as restored from HDF5, unpickled, fully sliced or deep-copied; nested, zipped and interleaved simultaneous iterations over .bins/.patches.'
)
ASSUMPTIONS = [
    "patch selection of a counts array means the square sub-block counts[:, sel][:, :, sel]",
    "rejection of incompatible operands may be any exception type",
]

KINDS = ["PatchedCounts", "PatchedSumWeights", "NormalisedCounts", "CorrFunc", "CorrData"]

scalar = st.one_of(
    st.integers(1, 9),
    gen.floats(0.1, 50.0),
    st.sampled_from([2, 0.5, 3.0, 4.0, 8, 0.25]),
    # extreme magnitudes (exact powers of two): sampled estimates must not depend on the overall scale
    st.sampled_from([2.0**-40, 2.0**40, 2.0**-20, 2.0**30]),
)


def _is_pow2(x):
    m, _ = np.frexp(float(x))
    return m == 0.5


@st.composite
def index_expr(draw, n):
    """int index or contiguous slice within [0, n)"""
    if draw(st.booleans()):
        i = draw(st.integers(0, n - 1))
        # negative indices count from the end, as everywhere in Python
        return {"int": i, "neg": draw(st.sampled_from([False, False, True]))}
    a = draw(st.integers(0, n))
    b = draw(st.integers(a, n))
    return {"slice": [a, b]}


@st.composite
def case_strategy(draw):
    kind = draw(st.sampled_from(KINDS))
    if kind == "CorrData":
        a = draw(gen.sampled_case(min_samples=1, max_samples=6))
        nb = len(a["data"])
        npatch = len(a["samples"])
        b = draw(gen.sampled_case(binning=a["binning"], nsamp=npatch))
    elif kind == "CorrFunc":
        a = draw(gen.corrfunc_case(positive_weights=draw(st.booleans())))
        nb = len(a["binning"]["edges"]) - 1
        npatch = a["npatch"]
        b = {"binning": a["binning"], "npatch": npatch, "auto": a["auto"], "present": a["present"]}
        for k in ["dd"] + a["present"]:
            nc = draw(gen.normalised_counts_case(binning=a["binning"], npatch=npatch, auto=a["auto"]))
            nc["w1"], nc["w2"] = a[k]["w1"], a[k]["w2"]  # addition requires identical sum_weights
            b[k] = nc
    else:
        a = draw(gen.normalised_counts_case())
        nb = len(a["binning"]["edges"]) - 1
        npatch = a["npatch"]
        b = draw(gen.normalised_counts_case(binning=a["binning"], npatch=npatch, auto=a["auto"]))
        if kind == "NormalisedCounts":
            b["w1"], b["w2"] = a["w1"], a["w2"]
    return {
        "kind": kind,
        "a": a,
        "b": b,
        "incompat": draw(st.sampled_from(["edges", "closed", "patches", "type", "bins"])),
        "scalar": draw(scalar),
        "scalar_np": draw(st.booleans()),
        "bin_index": draw(index_expr(nb)),
        "patch_index": draw(index_expr(npatch)),
        "perturb": draw(st.integers(0, 10_000)),
        "via": draw(st.sampled_from(gen.PROVENANCE)),  # how operand a reached the caller
    }


# --------------------------------------------------------------------------
def _build(kind, c):
    if kind == "PatchedCounts":
        return gen.build_counts(c)
    if kind == "PatchedSumWeights":
        return gen.build_sumw(c)
    if kind == "NormalisedCounts":
        return gen.build_normalised(c)
    if kind == "CorrFunc":
        return gen.build_corrfunc(c)
    return gen.build_sampled(c)


def _arrays(kind, obj):
    """independent structural view: dict name -> ndarray (+ binning, auto)"""
    out = {}
    if kind == "PatchedCounts":
        out["counts"] = np.array(obj.counts)
    elif kind == "PatchedSumWeights":
        out["w1"] = np.array(obj.sum_weights1)
        out["w2"] = np.array(obj.sum_weights2)
    elif kind == "NormalisedCounts":
        out["counts"] = np.array(obj.counts.counts)
        out["w1"] = np.array(obj.sum_weights.sum_weights1)
        out["w2"] = np.array(obj.sum_weights.sum_weights2)
    elif kind == "CorrFunc":
        for k in ("dd", "dr", "rd", "rr"):
            m = getattr(obj, k)
            if m is not None:
                for kk, vv in _arrays("NormalisedCounts", m).items():
                    out[f"{k}.{kk}"] = vv
    else:
        out["data"] = np.array(obj.data)
        out["samples"] = np.array(obj.samples)
    return out


def _expected_arrays(kind, c):
    out = {}
    if kind == "PatchedCounts":
        out["counts"] = np.array(c["counts"], float)
    elif kind == "PatchedSumWeights":
        out["w1"] = np.array(c["w1"], float)
        out["w2"] = np.array(c["w2"], float)
    elif kind == "NormalisedCounts":
        out["counts"] = np.array(c["counts"], float)
        out["w1"] = np.array(c["w1"], float)
        out["w2"] = np.array(c["w2"], float)
    elif kind == "CorrFunc":
        for k in ["dd"] + list(c["present"]):
            for kk, vv in _expected_arrays("NormalisedCounts", c[k]).items():
                out[f"{k}.{kk}"] = vv
    else:
        out["data"] = np.array(c["data"], float)
        out["samples"] = np.array(c["samples"], float)
    return out


def _same(x: dict, y: dict, rtol=0.0):
    if set(x) != set(y):
        return False
    for k in x:
        if x[k].shape != y[k].shape:
            return False
        if rtol == 0.0:
            if not np.array_equal(x[k], y[k], equal_nan=True):
                return False
        elif not np.allclose(x[k], y[k], rtol=rtol, atol=0.0, equal_nan=True):
            return False
    return True


def _sel(idx, n=None):
    if "int" in idx:
        i = idx["int"]
        item = i - n if idx.get("neg") and n is not None else i
        return item, slice(i, i + 1)
    a, b = idx["slice"]
    return slice(a, b), slice(a, b)


def _select_bins(arrs, sl, kind):
    out = {}
    for k, v in arrs.items():
        base = k.split(".")[-1]
        if base == "samples":
            out[k] = v[:, sl]
        else:
            out[k] = v[sl]
    return out


def _select_patches(arrs, sl):
    out = {}
    for k, v in arrs.items():
        base = k.split(".")[-1]
        if base == "counts":
            out[k] = v[:, sl][:, :, sl]
        elif base in ("w1", "w2"):
            out[k] = v[:, sl]
        else:
            raise KeyError(k)
    return out


def _incompatible(kind, case):
    """a partner that must be rejected by + (and by is_compatible(require=True))"""
    c = copy.deepcopy(case["a"])
    how = case["incompat"]
    b = c["binning"]
    nb = len(b["edges"]) - 1

    def patch_all(fn):
        if kind == "CorrFunc":
            for k in ["dd"] + list(c["present"]):
                fn(c[k])
            fn(c)
        else:
            fn(c)

    if how == "edges":
        new = dict(b, edges=[e + 0.125 for e in b["edges"]])
        patch_all(lambda d: d.__setitem__("binning", new))
    elif how == "closed":
        new = dict(b, closed="left" if b["closed"] == "right" else "right")
        patch_all(lambda d: d.__setitem__("binning", new))
    elif how == "bins":
        new = dict(b, edges=b["edges"] + [b["edges"][-1] + 0.5])

        def grow(d):
            d["binning"] = new
            for key in ("counts", "w1", "w2"):
                if key in d:
                    d[key] = d[key] + [d[key][-1]]
            if "data" in d:
                d["data"] = d["data"] + [1.0]
                d["samples"] = [row + [1.0] for row in d["samples"]]

        patch_all(grow)
    elif how == "patches":
        if kind == "CorrData":
            c["samples"] = c["samples"] + [c["samples"][-1]]
        else:

            def grow(d):
                if "counts" in d:
                    arr = np.array(d["counts"], float)
                    p = arr.shape[1]
                    new = np.zeros((arr.shape[0], p + 1, p + 1))
                    new[:, :p, :p] = arr
                    d["counts"] = new.tolist()
                    d["w1"] = [row + [1.0] for row in d["w1"]]
                    d["w2"] = [row + [1.0] for row in d["w2"]]
                    d["npatch"] = p + 1

            patch_all(grow)
    elif how == "type":
        return "type"
    return c


def _simultaneous_iterations(ck, accessor, n, expected, kind, what):
    """two iterations over the same accessor that are alive at the same time (nested loops,
    zip of the container with itself) each yield every item, in order"""
    try:
        nested = [(i, j, _arrays(kind, x), _arrays(kind, y)) for i, x in enumerate(accessor()) for j, y in enumerate(accessor())]
        zipped = [(_arrays(kind, x), _arrays(kind, y)) for x, y in zip(accessor(), accessor())]
        it = iter(accessor())
        first = next(it, None)
        list(accessor())  # a complete second iteration in between
        rest = [] if first is None else [first]
        while first is not None:  # continue the first iteration by explicit next() calls
            item = next(it, None)
            if item is None:
                break
            rest.append(item)
    except Exception as e:  # noqa
        ck.fail(f"iter({what}):{kind}:simultaneous|{exc_sig(e)}", f"{type(e).__name__}: {e}")
        return
    good = len(nested) == n * n and all(_same(x, expected(i)) and _same(y, expected(j)) for i, j, x, y in nested)
    ck.expect(good, f"iter({what}):{kind}:nested-loops", f"{len(nested)} pairs visited for {n} items")
    good = len(zipped) == n and all(_same(x, expected(i)) and _same(y, expected(i)) for i, (x, y) in enumerate(zipped))
    ck.expect(good, f"iter({what}):{kind}:zip-with-itself", f"{len(zipped)} pairs for {n} items")
    good = len(rest) == n and all(_same(_arrays(kind, x), expected(i)) for i, x in enumerate(rest))
    ck.expect(good, f"iter({what}):{kind}:interleaved", f"{len(rest)} items for {n}")
    ck.cls("simultaneous-iterations")


def run_case(case) -> list[Result]:
    kind = case["kind"]
    a_case, b_case = case["a"], case["b"]
    nb = len(a_case["binning"]["edges"]) - 1
    npatch = len(a_case["samples"]) if kind == "CorrData" else a_case["npatch"]
    bsel_item, bsel = _sel(case["bin_index"], nb)
    psel_item, psel = _sel(case["patch_index"], npatch)

    def inner(idx, n):
        if "int" in idx:
            return idx["int"] != 0
        a, b = idx["slice"]
        return (a, b) != (0, n) and b > a
    nontrivial = nb >= 2 and npatch >= 3 and inner(case["bin_index"], nb) and inner(case["patch_index"], npatch)
    ck = Checker(nontrivial, classes=[f"kind:{kind}", f"incompat:{case['incompat']}"])
    if kind == "CorrFunc":
        ck.cls("members:" + "+".join(a_case["present"]))

    ok, a = ck.call(_build, f"build:{kind}", kind, a_case)
    ok2, b = ck.call(_build, f"build:{kind}", kind, b_case)
    if not (ok and ok2):
        return ck.results()
    ea, eb = _expected_arrays(kind, a_case), _expected_arrays(kind, b_case)
    how = case.get("via")
    if how == "hdf5" and kind == "CorrData":
        how = "pickle"  # sampled data have no binary file format (their text files are rounded, see C11)
    if how:
        ok, a = ck.call(gen.via, f"via:{how}:{kind}", a, how)
        if not ok:
            return ck.results()
        ck.cls(f"via:{how}")
    ck.expect(_same(_arrays(kind, a), ea), f"construct:{kind}:values")

    # ---------------- equality: reflexive and structural
    ok, v = ck.call(lambda: a == a, f"eq:{kind}:reflexive")
    if ok:
        ck.expect(v is True or v == True, f"eq:{kind}:reflexive", f"a == a gave {v!r}")  # noqa: E712
    twin = None
    ok, twin = ck.call(_build, f"build:{kind}", kind, copy.deepcopy(a_case))
    ok, v = ck.call(lambda: a == twin, f"eq:{kind}:copy")
    if ok:
        ck.expect(bool(v), f"eq:{kind}:copy", "a != identical rebuild")
    # perturbed: change one array entry
    pert = copy.deepcopy(a_case)
    targets = []
    if kind == "CorrFunc":
        for k in ["dd"] + list(pert["present"]):
            targets += [(pert[k], "counts"), (pert[k], "w1")]
    elif kind == "CorrData":
        targets = [(pert, "data"), (pert, "samples")]
    elif kind == "PatchedCounts":
        targets = [(pert, "counts")]
    elif kind == "PatchedSumWeights":
        targets = [(pert, "w1"), (pert, "w2")]
    else:
        targets = [(pert, "counts"), (pert, "w1"), (pert, "w2")]
    d, key = targets[case["perturb"] % len(targets)]
    arr = np.array(d[key], float)
    if kind != "CorrData" and key == "w2" and a_case.get("auto"):
        pass
    flat = arr.reshape(-1)
    pos = case["perturb"] % flat.size
    flat[pos] = flat[pos] + 1.0
    d[key] = arr.tolist()
    ok, other = ck.call(_build, f"build:{kind}", kind, pert)
    if ok:
        ok, v = ck.call(lambda: a == other, f"eq:{kind}:perturbed")
        if ok:
            ck.expect(not bool(v), f"eq:{kind}:perturbed", f"a == a-with-{key}[{pos}]+1")
        ok, v = ck.call(lambda: a != other, f"ne:{kind}:perturbed")
        if ok:
            ck.expect(bool(v), f"ne:{kind}:perturbed")
    # auto flag / closed side are part of structural equality
    if kind != "CorrData" and kind != "CorrFunc":
        flip = copy.deepcopy(a_case)
        flip["auto"] = not flip["auto"]
        if kind == "PatchedCounts" or not flip["auto"] or flip["w1"] == flip["w2"]:
            ok, other = ck.call(_build, f"build:{kind}", kind, flip)
            if ok:
                ok, v = ck.call(lambda: a == other, f"eq:{kind}:auto")
                if ok:
                    ck.expect(not bool(v), f"eq:{kind}:auto-flag-ignored")

    # ---------------- addition
    if kind != "PatchedSumWeights":
        ok, s = ck.call(lambda: a + b, f"add:{kind}")
        if ok:
            exp = {}
            for k in ea:
                base = k.split(".")[-1]
                exp[k] = ea[k] + eb[k] if base in ("counts", "data", "samples") else ea[k]
            ck.expect(_same(_arrays(kind, s), exp), f"add:{kind}:values")
            ck.expect(_same(_arrays(kind, a), ea), f"add:{kind}:mutates-operand")
        if kind in ("PatchedCounts", "NormalisedCounts"):
            # only these two document sum() support (their __radd__ accepts the initial 0)
            ok, s3 = ck.call(lambda: sum([a, b, a]), f"radd:{kind}:sum()")
            if ok:
                exp = {}
                for k in ea:
                    base = k.split(".")[-1]
                    exp[k] = (ea[k] + eb[k]) + ea[k] if base == "counts" else ea[k]
                ck.expect(_same(_arrays(kind, s3), exp), f"radd:{kind}:values")
        if kind == "CorrData":
            ok, dlt = ck.call(lambda: a - b, f"sub:{kind}")
            if ok:
                exp = {k: ea[k] - eb[k] for k in ea}
                ck.expect(_same(_arrays(kind, dlt), exp), f"sub:{kind}:values")
        # incompatible partner
        inc = _incompatible(kind, case)
        if inc == "type":
            ck.raises(lambda: a + 1.5, f"add:{kind}:accepts-number")
            ck.raises(lambda: a + "x", f"add:{kind}:accepts-str")
        else:
            okb, partner = ck.call(_build, f"build:{kind}:incompatible", kind, inc)
            if okb:
                ck.raises(lambda: a + partner, f"add:{kind}:accepts-incompatible-{case['incompat']}")
                if hasattr(a, "is_compatible"):
                    ok, v = ck.call(lambda: a.is_compatible(partner), f"is_compatible:{kind}")
                    if ok:
                        ck.expect(v is False, f"is_compatible:{kind}:true-for-{case['incompat']}")
                    ck.raises(lambda: a.is_compatible(partner, require=True), f"is_compatible:{kind}:require-no-raise-{case['incompat']}")
        if hasattr(a, "is_compatible"):
            ok, v = ck.call(lambda: a.is_compatible(b), f"is_compatible:{kind}")
            if ok:
                ck.expect(v is True, f"is_compatible:{kind}:false-for-compatible")

    # ---------------- scalar multiplication
    if kind in ("PatchedCounts", "NormalisedCounts", "CorrFunc"):
        sc = case["scalar"]
        if case["scalar_np"]:
            sc = np.float64(sc) if isinstance(sc, float) else np.int64(sc)
        ok, m = ck.call(lambda: a * sc, f"mul:{kind}")
        if ok:
            exp = {}
            for k in ea:
                exp[k] = ea[k] * sc if k.split(".")[-1] == "counts" else ea[k]
            ck.expect(_same(_arrays(kind, m), exp), f"mul:{kind}:values")
            ck.expect(_same(_arrays(kind, a), ea), f"mul:{kind}:mutates-operand")
            if kind != "PatchedCounts" and not (kind == "CorrFunc" and "rr" in a_case["present"] and "dr" not in a_case["present"]):
                sampler = (lambda o: o.sample()) if kind == "CorrFunc" else (lambda o: o.sample_patch_sum())
                with np.errstate(all="ignore"):
                    ok1, s0 = ck.call(sampler, f"sample:{kind}", a)
                    ok2, s1 = ck.call(sampler, f"sample:{kind}", m)
                # Scaling by a power of two is exact in binary floating point, so the
                # jackknife arithmetic commutes with it bit for bit (incl. nan/inf
                # patterns).  Other scalars only get the element-wise counts check above:
                # the leave-one-out subtraction makes a tolerance-based comparison unsound.
                if ok1 and ok2 and _is_pow2(sc):
                    ck.cls("mul:pow2-exact")
                    f = float(sc) if kind == "NormalisedCounts" else 1.0
                    ck.expect(
                        np.array_equal(s1.data, s0.data * f, equal_nan=True)
                        and np.array_equal(s1.samples, s0.samples * f, equal_nan=True),
                        f"mul:{kind}:sample-" + ("not-scaled" if kind == "NormalisedCounts" else "changed"),
                        lambda: f"{s0.data} vs {s1.data}",
                    )
        ck.raises(lambda: a * True, f"mul:{kind}:accepts-bool")
        ck.raises(lambda: a * "x", f"mul:{kind}:accepts-str")
        ck.raises(lambda: a * a, f"mul:{kind}:accepts-container")

    # ---------------- bin selection
    empty_bins = bsel.stop == bsel.start
    # an empty bin selection cannot form a binning: raising or returning is not judged
    ok = False
    if not empty_bins:
        ok, sub = ck.call(lambda: a.bins[bsel_item], f"bins[]:{kind}")
    if ok:
        exp = _select_bins(ea, bsel, kind)
        if True:
            ck.expect(_same(_arrays(kind, sub), exp), f"bins[]:{kind}:values", lambda: f"index {case['bin_index']}")
            eedges = np.array(a_case["binning"]["edges"])[bsel.start : bsel.stop + 1]
            ck.expect(
                np.array_equal(sub.binning.edges, eedges) and str(sub.binning.closed) == a_case["binning"]["closed"],
                f"bins[]:{kind}:binning",
            )
    ok, lst = ck.call(lambda: list(a.bins), f"iter(bins):{kind}")
    if ok:
        good = len(lst) == nb
        if good:
            for i, item in enumerate(lst):
                good &= _same(_arrays(kind, item), _select_bins(ea, slice(i, i + 1), kind))
        ck.expect(good, f"iter(bins):{kind}:values", f"len {len(lst)} vs {nb}")
    _simultaneous_iterations(ck, lambda: a.bins, nb, lambda i: _select_bins(ea, slice(i, i + 1), kind), kind, "bins")
    ck.raises(lambda: a.bins[nb], f"bins[]:{kind}:accepts-out-of-range")

    # bins commute with sampling
    ls_without_dr = kind == "CorrFunc" and "rr" in a_case["present"] and "dr" not in a_case["present"]
    if ls_without_dr:
        ck.cls("ls_without_dr(not judged)")
    if kind != "CorrData" and not empty_bins and not ls_without_dr:
        sampler = (lambda o: o.sample()) if kind == "CorrFunc" else (lambda o: o.sample_patch_sum())
        with np.errstate(all="ignore"):
            ok1, full = ck.call(sampler, f"sample:{kind}", a)
            ok2, sub = ck.call(lambda: sampler(a.bins[bsel_item]), f"sample(bins[]):{kind}")
        if ok1 and ok2:
            ck.expect(
                np.array_equal(sub.data, full.data[bsel], equal_nan=True)
                and np.array_equal(sub.samples, full.samples[:, bsel], equal_nan=True),
                f"bins[]:{kind}:does-not-commute-with-sampling",
            )

    # ---------------- patch selection
    if kind != "CorrData":
        nonempty = psel.stop > psel.start
        ok, sub = ck.call(lambda: a.patches[psel_item], f"patches[]:{kind}")
        if ok and nonempty:
            exp = _select_patches(ea, psel)
            ck.expect(_same(_arrays(kind, sub), exp), f"patches[]:{kind}:values", lambda: f"index {case['patch_index']}")
            # commutes with summation over patches
            if kind in ("PatchedCounts", "NormalisedCounts"):
                cnt = sub if kind == "PatchedCounts" else sub.counts
                tot = cnt.sample_patch_sum().data
                ck.expect(
                    np.allclose(tot, exp["counts"].sum(axis=(1, 2)), rtol=1e-12, atol=0),
                    f"patches[]:{kind}:does-not-commute-with-summation",
                )
        ok, lst = ck.call(lambda: list(a.patches), f"iter(patches):{kind}")
        if ok:
            good = len(lst) == npatch
            if good:
                for i, item in enumerate(lst):
                    good &= _same(_arrays(kind, item), _select_patches(ea, slice(i, i + 1)))
            ck.expect(good, f"iter(patches):{kind}:values", f"len {len(lst)} vs {npatch}")
        _simultaneous_iterations(ck, lambda: a.patches, npatch, lambda i: _select_patches(ea, slice(i, i + 1)), kind, "patches")
        ck.raises(lambda: a.patches[npatch], f"patches[]:{kind}:accepts-out-of-range")

    # ---------------- purity: indexing, sampling, get_array(), comparisons and arithmetic with
    # other operands must not have modified the container; a second evaluation gives the same result
    if kind in ("PatchedCounts", "PatchedSumWeights", "NormalisedCounts"):
        ck.call(a.get_array, f"get_array:{kind}")
    ls_nodr = kind == "CorrFunc" and "rr" in a_case["present"] and "dr" not in a_case["present"]
    if kind != "CorrData" and not ls_nodr:
        sampler = (lambda o: o.sample()) if kind == "CorrFunc" else (lambda o: o.sample_patch_sum())
        with np.errstate(all="ignore"):
            ok1, r1 = ck.call(sampler, f"sample:{kind}", a)
            ok2, r2 = ck.call(sampler, f"sample:{kind}", a)
            ok3, r3 = ck.call(sampler, f"sample:{kind}", twin) if twin is not None else (False, None)
        if ok1 and ok2:
            ck.expect(np.array_equal(r1.data, r2.data, equal_nan=True) and np.array_equal(r1.samples, r2.samples, equal_nan=True), f"purity:{kind}:second-evaluation-differs")
        if ok1 and ok3:
            ck.expect(np.array_equal(r1.data, r3.data, equal_nan=True) and np.array_equal(r1.samples, r3.samples, equal_nan=True), f"purity:{kind}:used-container-differs-from-fresh-twin")
    ck.expect(_same(_arrays(kind, a), ea), f"purity:{kind}:container-modified-by-read-operations")

    # ---------------- shape mismatches are rejected at construction
    if kind == "PatchedCounts":
        from yaw.correlation.paircounts import PatchedCounts

        bn = gen.build_binning(a_case["binning"])
        arr = np.array(a_case["counts"], float)
        ck.raises(lambda: PatchedCounts(bn, arr[:, :, :-1] if npatch > 1 else arr[:, :, None], auto=False), "init:PatchedCounts:accepts-nonsquare")
        ck.raises(lambda: PatchedCounts(bn, np.concatenate([arr, arr]), auto=False), "init:PatchedCounts:accepts-wrong-bins")
    if kind == "CorrData":
        from yaw.correlation.corrdata import CorrData

        bn = gen.build_binning(a_case["binning"])
        ck.raises(lambda: CorrData(bn, np.zeros(nb + 1), np.zeros((2, nb + 1))), "init:CorrData:accepts-wrong-bins")
    return ck.results()


def components():
    return [Component("algebra", case_strategy(), run_case, quick=4000, thorough=200_000)]
