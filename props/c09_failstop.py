"""
C09 — catalog creation is fail-stop: exact catalog or an exception, never a hang.

Fault enumeration: fault kind x position (first / middle / last chunk) x site
(reader, worker, writer) x worker count, in three execution modes:
sequential, scheduled-parallel (harness-owned multiprocessing shim with
structural deadlock detection) and real-parallel (isolated child, hang declared
only on zero CPU progress).
"""

from __future__ import annotations

import contextlib
import hashlib
import math
import os
import shutil
from pathlib import Path

import numpy as np
from hypothesis import strategies as st

from vlib import gen, schedpool, sources
from vlib import pipeline as pl
from vlib.runner import Checker, Component, Result, Scratch, exc_sig

PROPERTY = "C09"
LEVEL = "fault_enumeration"
RULE = (
    "Hypothesis draws a valid input (n rows in >=3 chunks, source kind, worker count 1..3) and exactly one fault from the enumeration: "
    "NaN/+inf/-inf in ra/dec/weight/redshift at a row of the first/middle/last chunk; a column of unequal length (HDF5); a missing column; "
    "patch id -1/32768/70000 in a given chunk; a centre that attracts no object at any list position; no patch method; existing valid cache "
    "(with/without trees) and overwrite=False; overwrite=True onto a valid cache / a non-cache directory with files / a regular file; "
    "missing parent directory; an exception injected into the k-th call of the worker step or of the writer step; or no fault. Modes: "
    "sequential, scheduled-parallel (shim; deadlock = parent joins a writer that waits on an empty queue), real-parallel (isolated). "
    "Oracle: outcome is 'raises' or 'catalog equal to the input' (multiset), never a hang, never other data; pre-existing paths byte-identical "
    "unless overwrite=True onto a catalog cache; after a failed creation Catalog(path) raises unless it is the untouched pre-existing cache. "
    "Non-trivial: fault not in the first chunk and >1 worker; distinct = case digest."
    ' Extensions: centres are handed over as coordinates or as another catalog; pairwise distinct by construction.'
)
ASSUMPTIONS = [
    "a hang in real-parallel mode is declared only after 20 s and two samples 3 s apart without any CPU progress in the process tree",
    "read-only parent directories are not enumerated: the checks run as root, for which permission bits are not enforced",
    "the shim's deadlock rule (parent in join, child in get on an empty queue) is exact for the two-party protocol used by yaw",
]

FAULTS = [
    "none", "nonfinite", "nonfinite", "nonfinite", "unequal_length", "missing_column", "bad_patch_id", "bad_patch_id", "empty_centre",
    "no_patch_method", "exists_no_overwrite", "exists_no_overwrite_trees", "overwrite_cache", "overwrite_noncache_dir", "overwrite_file",
    "parent_missing", "inject_worker", "inject_writer", "inject_writer",
]


@st.composite
def case_strategy(draw):
    fault = draw(st.sampled_from(FAULTS))
    nchunks = draw(st.integers(3, 5))
    c = draw(st.integers(2, 12))
    n = nchunks * c - draw(st.integers(0, c - 1))
    workers = draw(st.sampled_from([1, 2, 3]))
    mode = "sequential" if workers == 1 else draw(st.sampled_from(["scheduled", "scheduled", "scheduled", "real"]))
    source = draw(st.sampled_from(["dataframe", "hdf5", "parquet", "fits"]))
    if fault == "unequal_length":
        source = "hdf5"
    ra = draw(st.lists(gen.floats(10.0, 20.0), min_size=n, max_size=n))
    dec = draw(st.lists(gen.floats(-5.0, 5.0), min_size=n, max_size=n))
    table = {"ra": ra, "dec": dec, "w": draw(st.lists(gen.floats(0.5, 2.0), min_size=n, max_size=n)), "z": draw(st.lists(gen.floats(0.1, 1.0), min_size=n, max_size=n)), "pid": None, "dtypes": {}}
    patch_mode = draw(st.sampled_from(["centers", "ids"])) if fault not in ("bad_patch_id", "empty_centre") else ("ids" if fault == "bad_patch_id" else "centers")
    K = draw(st.integers(1, 3))
    case = {"fault": fault, "n": n, "chunksize": c, "workers": workers, "mode": mode, "source": source, "table": table, "patch_mode": patch_mode,
            "progress": draw(st.sampled_from([False, False, True])),  # the progress display wraps the chunk iteration
            "tape": draw(st.lists(st.integers(0, 5), max_size=12)), "position": draw(st.sampled_from(["first", "middle", "last"])), "row_in_chunk": draw(st.integers(0, c - 1))}
    if patch_mode == "ids":
        table["pid"] = list(range(K)) + draw(st.lists(st.integers(0, K - 1), min_size=n - K, max_size=n - K))
    else:
        idx = draw(st.lists(st.integers(0, n - 1), min_size=K, max_size=K, unique=True))
        # every centre sits on an object and the centres are pairwise well separated, so each one
        # attracts at least that object (two coinciding centres would leave the second one empty,
        # which the library rightly rejects)
        keep = []
        for i in idx:
            if all(abs(ra[i] - ra[j]) > 1e-6 or abs(dec[i] - dec[j]) > 1e-6 for j in keep):
                keep.append(i)
        case["centers"] = [[math.radians(ra[i]), math.radians(dec[i])] for i in keep]
        # the centres are handed over as coordinates or, as documented, as another catalog
        case["centers_from"] = draw(st.sampled_from(["coords", "coords", "catalog"]))
    if fault == "nonfinite":
        case["column"] = draw(st.sampled_from(["ra", "dec", "w", "z"]))
        case["value"] = draw(st.sampled_from(["nan", "inf", "-inf"]))
    if fault == "bad_patch_id":
        # (dtype of the patch-index column, offending value representable in it)
        case["pid_dtype"], case["value"] = draw(st.sampled_from([("i8", -1), ("i8", 32768), ("i8", 70000), ("i4", -1), ("i4", 40000), ("i2", -1), ("i2", -32768), ("i1", -1), ("u2", 32768), ("u2", 65535), ("u4", 70000), ("f8", float("nan")), ("f8", float("nan")), ("f4", float("nan")), ("f8", float("inf")), ("f8", -1.0), ("f8", 40000.0)]))
    if fault == "empty_centre":
        case["at"] = draw(st.integers(0, K))
    if fault == "missing_column":
        case["column"] = draw(st.sampled_from(["ra", "dec", "w", "z"]))
    if fault == "unequal_length":
        # one column is shorter or longer than the others (by one row, or by surplus rows that
        # fill whole chunks); also with a chunk size that divides the length of the ra column
        case["column"] = draw(st.sampled_from(["dec", "w", "z", "ra"]))
        case["delta"] = draw(st.sampled_from([-1, -1, 1, c, 2 * c + 1]))
        if draw(st.booleans()):
            case["n"] = n = nchunks * c
            for k in ("ra", "dec", "w", "z"):
                table[k] = (table[k] * 2)[:n]
            if table.get("pid") is not None:
                table["pid"] = (table["pid"] * 2)[:n]
    if fault.startswith("inject"):
        case["call"] = draw(st.integers(1, 6))
    return case


def fault_row(case):
    n, c = case["n"], case["chunksize"]
    nchunks = math.ceil(n / c)
    chunk = {"first": 0, "middle": nchunks // 2, "last": nchunks - 1}[case["position"]]
    return min(n - 1, chunk * c + case["row_in_chunk"])


def tree_digest(path: Path):
    """content hash of a file or directory tree (names, sizes, bytes)"""
    if not path.exists():
        return None
    h = hashlib.sha1()
    if path.is_file():
        h.update(b"F" + path.read_bytes())
        return h.hexdigest()
    for root, dirs, files in sorted(os.walk(path)):
        dirs.sort()
        for f in sorted(files):
            p = Path(root) / f
            h.update(str(p.relative_to(path)).encode() + b"\0" + p.read_bytes())
        h.update(("D" + os.path.relpath(root, path)).encode())
    return h.hexdigest()


class Injected(Exception):
    pass


def _do_create(case, table, tmp, target, overwrite, kwextra):
    from yaw import AngularCoordinates, Catalog

    src = sources.write_source(case["source"], table, tmp) if not isinstance(table, Path) else table
    kw = dict(degrees=True, chunksize=case["chunksize"], max_workers=case["workers"], overwrite=overwrite, progress=bool(case.get("progress")))
    kw.update(kwextra)
    from props.c02_creation import quiet_stderr

    with quiet_stderr() if case.get("progress") else contextlib.nullcontext():
        if case["source"] == "dataframe":
            return Catalog.from_dataframe(target, src, **kw)
        return Catalog.from_file(target, src, **kw)


def run_case(case):
    from yaw import AngularCoordinates, Catalog

    fault = case["fault"]
    table = {k: (list(v) if isinstance(v, list) else v) for k, v in case["table"].items()}
    n = case["n"]
    row = fault_row(case)
    ck = Checker(classes=[f"fault:{fault}", f"mode:{case['mode']}", f"workers:{case['workers']}", f"source:{case['source']}"])
    ck.nontrivial = case["workers"] > 1 and (fault in ("nonfinite", "bad_patch_id") and case["position"] != "first" or fault.startswith("inject") and case["call"] > 1 or fault in ("empty_centre", "exists_no_overwrite", "overwrite_noncache_dir"))
    if fault in ("nonfinite", "bad_patch_id"):
        ck.cls(f"position:{case['position']}")
    names = sources.column_names(table, use_pid=case["patch_mode"] == "ids")
    kw = dict(names)
    must_raise = fault not in ("none", "overwrite_cache")
    overwrite = fault.startswith("overwrite")
    centers = None
    if case["patch_mode"] == "centers":
        centers = np.array(case["centers"], float)

    # ---------------- apply the fault to the input
    if fault == "nonfinite":
        col = case["column"]
        table[col][row] = float(case["value"])
    elif fault == "bad_patch_id":
        table["pid"][row] = case["value"]
        table["dtypes"] = dict(table.get("dtypes") or {}, pid=case.get("pid_dtype", "i8"))
    elif fault == "missing_column":
        key = {"ra": "ra_name", "dec": "dec_name", "w": "weight_name", "z": "redshift_name"}[case["column"]]
        kw[key] = "does_not_exist"
    elif fault == "empty_centre":
        far = [math.radians(200.0), math.radians(-60.0)]
        centers = np.insert(centers, min(case["at"], len(centers)), far, axis=0)
    if centers is not None and fault != "no_patch_method":
        kw["patch_centers"] = AngularCoordinates(centers)
    if fault == "no_patch_method":
        kw.pop("patch_name", None)
        kw.pop("patch_centers", None)

    with Scratch() as tmp:
        target = tmp / "target"
        if kw.get("patch_centers") is not None and case.get("centers_from") == "catalog":
            import pandas as pd

            kw["patch_centers"] = Catalog.from_dataframe(tmp / "donor", pd.DataFrame({"ra": centers[:, 0], "dec": centers[:, 1]}), ra_name="ra", dec_name="dec", degrees=False, patch_centers=AngularCoordinates(centers), max_workers=1)
            ck.cls("centres-from-catalog")
        # ---------------- prior disk state
        prior_is_cache = False
        if fault in ("exists_no_overwrite", "exists_no_overwrite_trees", "overwrite_cache"):
            old = {"ra": [30.0 + i for i in range(7)], "dec": [1.0] * 7, "w": None, "z": [0.5] * 7, "pid": None, "dtypes": {}}
            import pandas as pd

            c0 = Catalog.from_dataframe(target, pd.DataFrame({"ra": old["ra"], "dec": old["dec"], "z": old["z"]}), ra_name="ra", dec_name="dec", redshift_name="z", patch_num=None, patch_centers=AngularCoordinates(np.deg2rad([[30.0, 1.0], [36.0, 1.0]])), max_workers=1)
            if fault == "exists_no_overwrite_trees":
                c0.build_trees([0.1, 0.6, 1.0], max_workers=1)
            prior_is_cache = True
        elif fault == "overwrite_noncache_dir":
            (target / "sub").mkdir(parents=True)
            (target / "precious.txt").write_text("do not delete")
            (target / "sub" / "data.bin").write_bytes(b"\x00" * 17)
        elif fault == "overwrite_file":
            target.write_text("a regular file")
        elif fault == "parent_missing":
            target = tmp / "no" / "such" / "parent" / "target"
        before = tree_digest(target)

        if fault == "unequal_length":
            import h5py

            src = sources.write_source("hdf5", table, tmp)
            with h5py.File(src, "a") as f:
                col = case["column"]
                data = f[col][:]
                d = int(case.get("delta", -1))
                data = data[:d] if d < 0 else np.concatenate([data, np.resize(data, d)])
                del f[col]
                f.create_dataset(col, data=data)
            table_or_path = src
        else:
            table_or_path = table

        # ---------------- injection sites
        import yaw.catalog.catalog as cc
        import yaw.catalog.patch as cp

        counter = {"n": 0}
        saved = (cc.split_into_patches, cp.PatchWriter.process_chunk)

        def inject():
            if fault == "inject_worker":
                orig = saved[0]

                def split(chunk, patch_centers):
                    counter["n"] += 1
                    if counter["n"] == case["call"]:
                        raise Injected("worker step")
                    return orig(chunk, patch_centers)

                cc.split_into_patches = split
            elif fault == "inject_writer":
                orig = saved[1]

                def process_chunk(self, data):
                    counter["n"] += 1
                    if counter["n"] == case["call"]:
                        raise Injected("writer step")
                    return orig(self, data)

                cp.PatchWriter.process_chunk = process_chunk

        def restore():
            cc.split_into_patches, cp.PatchWriter.process_chunk = saved

        # ---------------- run
        outcome, err, cat = None, None, None
        try:
            inject()
            if case["mode"] == "sequential":
                cat = _do_create(case, table_or_path, tmp, target, overwrite, kw)
                outcome = "returned"
            elif case["mode"] == "scheduled":
                with schedpool.Patched(case["tape"]) as fake:
                    try:
                        cat = _do_create(case, table_or_path, tmp, target, overwrite, kw)
                        outcome = "returned"
                    finally:
                        if fake.stats.deadlock:
                            outcome = "hang"
            else:
                from vlib.isolate import run_isolated

                def job():
                    import yaw.utils.parallel as par

                    par._num_processes = lambda: 64
                    _do_create(case, table_or_path, tmp, target, overwrite, kw)

                status, payload = run_isolated(job, bound=20.0)
                if status == "ok":
                    outcome = "returned"
                    cat = Catalog(target, max_workers=1)
                elif status == "exc":
                    outcome, err = "raised", payload[0] + ": " + payload[1]
                elif status == "hung":
                    outcome, err = "hang", payload
                else:
                    return Result.discard(f"real-pool-{status}")
        except schedpool.Deadlock as e:
            outcome, err = "hang", str(e)
        except Exception as e:  # noqa
            if outcome != "hang":
                outcome, err = "raised", f"{type(e).__name__}: {e} @ {exc_sig(e)}"
        finally:
            restore()
        # the injection may not have been reached (fewer calls than the chosen index)
        if fault.startswith("inject") and case["mode"] != "real" and counter["n"] < case["call"]:
            must_raise = False
            ck.cls("injection-not-reached")
        if fault.startswith("inject") and case["mode"] == "real":
            must_raise = None  # call count not observable across processes: accept either outcome

        ck.cls(f"outcome:{outcome}")
        tag = f"{fault}:{case['mode']}"
        # ---------------- oracle
        if outcome == "hang":
            ck.fail(f"hang:{tag}", f"{err}")
        if outcome == "returned":
            if must_raise:
                detail = ""
                if cat is not None:
                    try:
                        detail = f"returned a catalog with {sum(cat.get_num_records())} records in patches {sorted(cat.keys())} for an input of {n}"
                    except Exception as e:  # noqa
                        detail = f"returned object unusable: {e}"
                ck.fail(f"no-exception:{tag}", detail)
            else:
                # must hold exactly the input
                try:
                    names_, exp = sources.expected_records(table, True)
                    stored = sources.stored_records(cat)
                    allrec = np.concatenate(list(stored.values())) if stored else np.empty((0, exp.shape[1]))
                    ck.expect(allrec.shape[1] == exp.shape[1] and sources.multiset(allrec) == sources.multiset(exp), f"returned-other-data:{tag}", f"{len(allrec)} stored vs {len(exp)} input records")
                except Exception as e:  # noqa
                    ck.fail(f"returned-unusable-catalog:{tag}|{exc_sig(e)}", f"{type(e).__name__}: {e}")
        if outcome == "raised" and must_raise is False:
            ck.fail(f"valid-input-rejected:{tag}", f"{err}")
        if outcome in ("raised", "hang"):
            after = tree_digest(target)
            if fault in ("exists_no_overwrite", "exists_no_overwrite_trees", "overwrite_noncache_dir", "overwrite_file"):
                ck.expect(after == before, f"pre-existing-path-modified:{tag}", "path existed before the failed call and is not byte-identical afterwards" + (" (deleted)" if after is None else ""))
            elif fault != "overwrite_cache":
                # a failed creation must not leave something that opens as a valid catalog
                if target.exists():
                    try:
                        c2 = Catalog(target, max_workers=1)
                        nrec = sum(c2.get_num_records())
                        ck.fail(f"failed-creation-left-valid-catalog:{tag}", f"Catalog(path) opens with {nrec} records in {len(c2)} patches after: {err}")
                    except Exception:  # noqa
                        pass
    return ck.results()


def components():
    return [Component("faults", case_strategy(), run_case, quick=900, thorough=25_000)]
