#!/bin/bash
# For every seeded change (and mutant) run the targeted quick check against a scratch copy with the
# change applied and keep up to two of the failing cases as regression replays (they must pass on
# the unchanged tree; that is verified by the next quick run, which replays replays/<ID>/*.json).
HERE="$(cd "$(dirname "${BASH_SOURCE[0]}")/.." && pwd)"; cd "$HERE"
FILTER="${1:-.}"
harvest() { # patch prop tag
  local patch="$1" prop="$2" tag="$3"
  [[ "$tag" =~ $FILTER ]] || return
  local stamp=$(mktemp); sleep 1
  tools/mutant.sh "$patch" "$prop" --tier quick >/dev/null 2>&1
  mkdir -p "replays/$prop"
  local k=0
  for f in $(find "out/violations/$prop" -name '*.json' -newer "$stamp" 2>/dev/null | sort | head -2); do
    k=$((k+1)); cp "$f" "replays/$prop/${tag}_$k.json"
  done
  rm -f "$stamp"; echo "$tag -> $prop: $k replay(s)"
}
for d in seeded/*/; do n=$(basename "$d"); p=$(/venv/bin/python -c "import json; print(json.load(open('$d/meta.json'))['property'])"); harvest "${d}patch.diff" "$p" "seeded_$n"; done
