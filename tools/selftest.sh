#!/bin/bash
# Sensitivity self-test: every mutant must make the quick tier of its property exit 1.
# usage: tools/selftest.sh [filter-regex]      writes SELFTEST.md
HERE="$(cd "$(dirname "${BASH_SOURCE[0]}")/.." && pwd)"; cd "$HERE"
FILTER="${1:-.}"
OUT="$HERE/SELFTEST.md"
TMP=$(mktemp /tmp/yawv-selftest-XXXXXX)
{
echo "# Sensitivity self-test"
echo
echo "Each row: a property-breaking change applied to a scratch copy of /repo, and the exit status of the"
echo "quick tier of the targeted property run against that copy (1 = violation reported = caught)."
echo
echo "| change | kind | property | exit | result |"
echo "|---|---|---|---|---|"
} > "$TMP"
row() { # spec kind prop
  local spec="$1" kind="$2" prop="$3"
  [[ "$spec $prop" =~ $FILTER ]] || return
  local res rc
  res=$(tools/mutant.sh "$spec" "$prop" --tier quick 2>&1); rc=$?
  local verdict="MISSED"; [ $rc -eq 1 ] && verdict="caught"; [ $rc -eq 3 ] && verdict="n/a (does not apply to current tree)"; [ $rc -eq 2 ] && verdict="HARNESS-ERROR"
  echo "| ${spec#$HERE/} | $kind | $prop | $rc | $verdict |" >> "$TMP"
  echo "$spec $prop -> $rc $verdict"
}
# 1. reverse of every fix commit (from known_findings.json)
/venv/bin/python - <<'PY' > /tmp/yawv-selftest-fixes.txt
import json
seen=set()
for f in json.load(open('known_findings.json'))['findings']:
    if f.get('status')=='fixed':
        key=(f['commit'], f['property'])
        if key not in seen:
            seen.add(key); print(f['commit'], f['property'])
PY
while read c p; do row "revert:$c" "reverted fix" "$p"; done < /tmp/yawv-selftest-fixes.txt
# 2. hand-written mutants: file name starts with the property id
for m in mutants/*.patch; do p=$(basename "$m" | cut -c1-3 | tr a-z A-Z); row "$m" "mutant" "$p"; done
# 3. independently seeded changes
for d in seeded/*/; do [ -f "$d/patch.diff" ] || continue; p=$(/venv/bin/python -c "import json,sys; print(json.load(open('$d/meta.json'))['property'])"); row "${d}patch.diff" "seeded" "$p"; done
mv "$TMP" "$OUT"; echo "wrote $OUT"
