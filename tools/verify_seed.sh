#!/bin/bash
# usage: tools/verify_seed.sh <seed-dir containing patch.diff demo.py> <PROPERTY> [name]
# Confirms an independently produced change in a scratch copy of /repo: applies, 111 tests pass,
# demo fails with it and passes without; then runs the property's quick check against it.
HERE="$(cd "$(dirname "${BASH_SOURCE[0]}")/.." && pwd)"
SEED="$(readlink -f "$1")"; PROP="$2"; NAME="${3:-$(basename "$SEED")}"
D=$(mktemp -d /tmp/yawv-seed-XXXXXX); trap 'rm -rf "$D"' EXIT
mkdir -p "$D/clean" "$D/mut"
for t in clean mut; do cp -r /repo/src /repo/tests /repo/pyproject.toml "$D/$t/" 2>/dev/null; [ -f /repo/setup.py ] && cp /repo/setup.py "$D/$t/"; done
(cd "$D/mut" && patch -p1 -s < "$SEED/patch.diff") || { echo "APPLY-FAILED"; exit 3; }
tests=$(cd "$D/mut" && PYTHONPATH="$D/mut/src" YAW_NUM_THREADS=1 timeout 900 /venv/bin/python -m pytest -q -p no:cacheprovider -o addopts="" tests 2>&1 | tail -1)
(cd "$D" && PYTHONPATH="$D/mut/src" timeout 900 /venv/bin/python "$SEED/demo.py" > "$D/demo_mut.log" 2>&1); rc_mut=$?
(cd "$D" && PYTHONPATH="$D/clean/src" timeout 900 /venv/bin/python "$SEED/demo.py" > "$D/demo_clean.log" 2>&1); rc_clean=$?
cd "$HERE"
VERIF_REPO="$D/mut" ./check "$PROP" --tier quick --no-evidence > "$D/check.log" 2>/dev/null; rc_chk=$?
chk=$(grep -E "^\[|tier=" "$D/check.log" | cut -c1-200)
echo "seed=$NAME property=$PROP"
echo "tests_with_change: $tests"
echo "demo_with_change_exit=$rc_mut demo_without_change_exit=$rc_clean"
echo "check_exit=$rc_chk"
echo "$chk" | head -8
tail -3 "$D/demo_mut.log" | cut -c1-200
