#!/venv/bin/python
"""Regenerates MANIFEST.json from the table below and validates it."""
import json, sys
from pathlib import Path

VERIF = Path(__file__).resolve().parent.parent
sys.path.append(str(VERIF / ".deps"))

CHECKS = {
    # id: (level, technique, text, note, design_ref)
    "C17": (
        "exploration",
        "Hypothesis generated containers/operands/indices vs numpy reference arithmetic (algebraic laws, exact power-of-two scaling)",
        "Generated-input search: every container kind, operand compatibility class, scalar and index expression is drawn by Hypothesis and the result compared with numpy arithmetic on the generated arrays; exploration is the right level because the property quantifies over unbounded array contents that cannot be enumerated.",
        "numpy semantics as reference; bounded sizes (<=5 bins, <=6 patches); operands also as restored from HDF5 / unpickled / sliced / copied; held-on-explored only",
        "DESIGN.md §2 C17",
    ),
}
CHECKS.update({
    "C14": (
        "exploration",
        "Hypothesis generated sky positions/distances vs 50-digit mpmath reference with explicit error bounds",
        "Generated-input search over a mixture built to reach poles, the RA seam, tiny and (near-)antipodal separations; every primitive is compared with an mpmath evaluation of the exact formula on the same binary inputs under frozen, explicit error bounds. Exploration: the input domain is continuous.",
        "mpmath as reference; bounds are constants in props/c14_geometry.py chosen with >=4x margin over the worst observed error",
        "DESIGN.md §2 C14",
    ),
    "C03": (
        "exploration",
        "Hypothesis generated pair-count containers and catalogs vs explicit delete-patch-k recomputation and loop-based jackknife covariance",
        "Generated-input search: containers with exactly representable entries make the library's subtract-from-total shortcut and the oracle's explicit deletion agree exactly; end-to-end cases re-create catalogs without patch k and re-measure. Exploration over unbounded array contents.",
        "dyadic entries for exact comparison; degenerate (non-finite) bins not judged; mostly <=7 patches and <=5 bins, rarely 127-300 patches",
        "DESIGN.md §2 C03",
    ),
    "C04": (
        "exploration",
        "Hypothesis generated CorrFunc/CorrData/HistData vs documented estimator and n(z) formulas evaluated on array totals",
        "Generated-input search over all member subsets, auto/cross, unequal bin widths, NaN/negative data; oracle evaluates the documented formulas from totals of the generated arrays. Exploration over unbounded contents.",
        "LS without dr not judged; degenerate bins not judged",
        "DESIGN.md §2 C04",
    ),
})
CHECKS.update({
    "C01": (
        "exploration",
        "Hypothesis generated sky scenes + configurations through the public pipeline vs brute-force O(N^2) pair-count reference (differential)",
        "Generated-input search: scenes are laid out relative to the configuration's largest angle so that cross-patch pairs near the pruning threshold, low/high redshift, poles and the RA seam are reached by construction; every (scale, bin, patch pair) cell and every weight sum is compared with an independent brute-force count. Exploration, since catalogs and configurations are unbounded.",
        "astropy distances and numpy as reference; cells with a pair within 1e-12+1e-9*theta of an edge are skipped; catalogs of <=14 patches with <=9 objects per patch, plus rare lattice scenes of 128-300 patches and all-sky scenes with hemisphere-sized patches",
        "DESIGN.md §2 C01",
    ),
})
CHECKS.update({
    "C02": (
        "exploration",
        "Hypothesis generated tables/sources/chunk sizes/worker schedules; multiset round-trip oracle + independent nearest-centre assignment + metamorphic variant comparison; harness-owned multiprocessing schedule",
        "Generated-input search over input length vs chunk size, dtypes, optional columns, all four file/in-memory sources and the random generator, all three patch modes, worker counts and delivery orders (multiprocessing inside yaw is replaced by a shim whose completion order is a Hypothesis-drawn tape; a real-pool subset cross-checks). Oracle: bit-pattern multiset equality in both directions, per patch, after reopening and between two variants.",
        "shim fidelity to multiprocessing.Pool/Manager/Process semantics; k-means centres taken from the catalog; equidistant objects discarded",
        "DESIGN.md §2 C02",
    ),
})
CHECKS.update({
    "C10": (
        "exploration",
        "Hypothesis generated edge-valued redshift arrays; three consumers (trees, measurement weight sums, histogram) vs explicit interval-membership oracle",
        "Generated-input search with redshifts drawn mostly from the bin edges themselves, their floating-point neighbours and values outside the binning, both closed sides, empty bins/patches; all three consumers must equal an explicit interval test (hence each other).",
        "edges taken from the library (C15 checks them); small catalogs",
        "DESIGN.md §2 C10",
    ),
})
CHECKS.update({
    "C09": (
        "fault_enumeration",
        "Hypothesis-enumerated faults (kind x chunk position x site x worker count) in sequential, harness-scheduled and real multiprocessing modes; outcome oracle (raises | exact catalog), structural deadlock detection, byte-identity of pre-existing paths",
        "Fault enumeration: every listed fault kind is injected at first/middle/last chunk, in reader, worker and writer, for 1-3 workers; the multiprocessing shim detects 'parent joins a writer waiting on an empty queue' structurally (no clock), a real-pool subset is run isolated with CPU-progress hang detection. The oracle classifies the outcome and inspects the disk afterwards.",
        "shim fidelity; real-pool hang = no CPU progress for 6 s after 20 s; read-only locations not enumerated (root)",
        "DESIGN.md §2 C09",
    ),
    "C12": (
        "exploration",
        "Hypothesis generated scenes through all patch modes; metadata recomputed from stored records; centre-order and partition round trip; deliberately inconsistent catalog pairs must be refused",
        "Generated-input search over scenes, centre orders, centres without objects, single-object patches and displaced/permuted/missing patches; oracle recomputes every metadata item from the stored records with independent geometry and requires measurements to raise for inconsistent pairs.",
        "only the must-raise direction is asserted for inconsistent pairs; radius tolerance 1e-9 (+ chord conditioning near the antipode)",
        "DESIGN.md §2 C12",
    ),
})
CHECKS.update({
    "C15": (
        "exploration",
        "Hypothesis generated parameter sets, invalid variants and modifications; astropy-based oracle for edges and angles; modify == create(merged) differential",
        "Generated-input search over all parameter combinations (methods, closed sides, units, scales, cosmologies incl. a custom subclass, custom edges), invalid variants and 1-4 parameter modifications; oracle derives edges/spacing/angles from astropy and compares modify() with create() on merged parameters field by field.",
        "astropy as reference for distances; comoving edges compared in z with 2e-7 (z_at_value tolerance), end points exact",
        "DESIGN.md §2 C15",
    ),
    "C11": (
        "exploration",
        "Hypothesis generated products; write/read round trip with library == plus independent member-wise comparison and downstream values; independent model of the fixed-width text format",
        "Generated-input search over container contents (all member subsets, zero/sparse counts, NaN/inf, magnitudes 1e-12..1e9, 1..8 bins), configuration parameters and patch metadata; each is written and re-read and compared both with the library's == and member by member.",
        "text precision model: 10 - len(integer part) - 1 decimals kept; custom cosmologies not serialisable (documented)",
        "DESIGN.md §2 C11",
    ),
})
CHECKS.update({
    "C16": (
        "exploration",
        "Hypothesis generated windows/sizes/chunk sizes/seeds/attribute samples/usage histories; invariant oracle (count, footprint, joint rows), differential used-vs-fresh generator, chi-square uniformity test",
        "Generated-input search over windows incl. poles, N vs chunk size, seeds, attribute arrays and histories of earlier uses of the generator object; oracle checks exact count, footprint, joint attribute rows, equality with a fresh generator of the same seed, and a deterministic chi-square / mean test of area uniformity.",
        "statistical oracle with false-alarm probability < 1e-7 per run; stream allowed to depend on chunk size",
        "DESIGN.md §2 C16",
    ),
    "C18": (
        "exploration",
        "Hypothesis generated lengths/chunk sizes/sources/patch modes with recording sources; invariant over the request log (consecutive, non-overlapping, bounded, exactly-once per pass)",
        "Generated-input search with instrumented sources (recording data frame, h5py / parquet proxies bound into yaw.catalog.readers, recording generator) -- the request history is the observed trace and the oracle is an invariant over it.",
        "FITS observed at emitted-chunk level only; Parquet I/O unit is the row group",
        "DESIGN.md §2 C18",
    ),
})
CHECKS.update({
    "C05": (
        "exploration",
        "Hypothesis-drawn worker counts and completion-order tapes on a harness-owned multiprocessing shim; differential against the sequential path (bit-identical)",
        "Exploration over schedules: yaw's multiprocessing is replaced by a shim whose Pool delivers results in a Hypothesis-chosen completion order (only orders a real w-worker pool can produce), for every parallel entry point; results must be bit-identical to the sequential path on byte-identical cache copies. A real-pool subset (uncontrolled schedule) cross-checks the shim.",
        "shim fidelity (in-order dispatch, chunksize 1); bounded sizes (<=6 patches => <=36 tasks)",
        "DESIGN.md §2 C05",
    ),
    "C07": (
        "exploration",
        "Hypothesis-drawn operation histories (model-based: build/measure/hist/reopen with neighbouring configurations) vs the same call on freshly created caches",
        "Exploration over histories: operation sequences are generated as data (shrinkable as one value) and interpreted against the real cache directories; after every measuring step the result is compared with the same call on fresh caches (the model: a measurement is a pure function of records and configuration).",
        "histories of <=14 operations over 4 catalogs and a pool of 7 neighbouring configurations",
        "DESIGN.md §2 C07",
    ),
    "C13": (
        "exploration",
        "Hypothesis-drawn base case + transformation (rotation, row/centre permutation, weight scaling, split); metamorphic relations on raw counts and downstream estimates",
        "Metamorphic search: both the base and the transformed case run through the public pipeline; raw counts must transform as dictated (exactly for unweighted data) and amplitudes/samples/covariance/redshift estimate must agree up to rounding. Ambiguous cases (pair near a scale edge, object near-equidistant from two centres) are discarded before the second run.",
        "tolerance model for downstream values (jackknife subtraction); degenerate leave-one-out denominators not judged",
        "DESIGN.md §2 C13",
    ),
})
CHECKS.update({
    "C08": (
        "fault_enumeration",
        "Hypothesis-drawn cache-writing workloads; exhaustive SIGKILL injection (strace) at every file-system syscall of each workload; oracle = next use raises or equals fresh-cache / old-or-new product",
        "Fault enumeration over crash points: each generated workload instance is traced to list its file-system syscalls on the cache paths and is then killed on entry of every one of them (each point between two operations exactly once); every distinct surviving directory tree is used the way a user would (open, measure with the interrupted and the previous binning, read result files) in an isolated child and compared with fresh caches.",
        "process death at syscall granularity (no torn writes, no power-loss reordering); sequential mode; strace -P path filtering as verified in this sandbox",
        "DESIGN.md §2 C08",
    ),
})
CHECKS.update({
    "C06": (
        "exploration",
        "Hypothesis-drawn world sizes, worker limits, workloads and choice tapes on a simulated MPI runtime (threads as ranks, harness-owned matching and send completion); differential against a single-process run + exactly-once / no-unmatched-message invariants",
        "Exploration over schedules on an executable model of MPI: yaw's MPI branches (selected at import in a dedicated process) run against vlib/fakempi, in which the harness resolves every choice the standard leaves open (runnable rank, wildcard matching among senders, eager vs synchronous send completion, early exit of a bcast root) from a Hypothesis-drawn tape; deadlock is detected structurally. The root's results are compared with a plain single-process run.",
        "fidelity of the model to MPI-3.1 point-to-point and collective semantics; single node; no MPI implementation is installed, so real-runtime effects beyond the standard's matching rules are out of reach",
        "DESIGN.md §2 C06",
    ),
})
NOT_YET = {}

props = [json.loads(l) for l in (VERIF / "properties.jsonl").read_text().splitlines() if l.strip()]
checks, na = [], []
for p in props:
    pid = p["id"]
    if pid in CHECKS:
        level, tech, text, note, ref = CHECKS[pid]
        checks.append({
            "property_id": pid,
            "quick_cmd": f"./check {pid} --tier quick",
            "thorough_cmd": f"./check {pid} --tier thorough",
            "evidence_file": f"evidence/{pid}.json",
            "replay_cmd_template": f"./check {pid} --replay {{path}}",
            "engine": "hypothesis-runner",
            "level_claimed": {"category": level, "text": text, "design_ref": ref},
            "level_note": note,
            "technique": tech,
        })
    else:
        na.append({"property_id": pid, "reason": NOT_YET.get(pid, "check still under construction in this round (design in DESIGN.md); not claimed until its check is registered")})

manifest = {
    "version": 1,
    "setup_cmd": "./setup.sh",
    "hooks": {
        "guard": "YAW_VERIF",
        "enable": "no source hooks: checks import /repo/src directly (PYTHONPATH) and rebind module-level names in their own process; YAW_VERIF=1 is exported by ./check for completeness",
        "baseline_off_cmd": "cd /repo && env -u YAW_VERIF /venv/bin/python -m pytest -ra -q -p no:cacheprovider --timeout=900 --continue-on-collection-errors",
        "source_commits": [],
        "add_only": True,
    },
    "engines": [
        {"name": "hypothesis-runner", "path": "vlib/runner.py", "serves_properties": sorted(CHECKS), "kind_free_text": "sharded seeded Hypothesis runs, failure bucketing by root-cause signature, known-finding matching, evidence writer"},
        {"name": "schedpool", "path": "vlib/schedpool.py", "serves_properties": ["C02", "C03", "C05", "C09", "C16", "C18"], "kind_free_text": "drop-in multiprocessing shim with harness-owned completion order and structural deadlock detection"},
        {"name": "fakempi", "path": "vlib/fakempi/mpi4py/MPI.py", "serves_properties": ["C06"], "kind_free_text": "simulated MPI runtime: threads as ranks, tape-resolved matching / send completion / scheduling"},
        {"name": "crash-injector", "path": "vlib/crash.py", "serves_properties": ["C08"], "kind_free_text": "strace-based SIGKILL injection at every file-system syscall on the cache paths"},
        {"name": "isolate", "path": "vlib/isolate.py", "serves_properties": ["C02", "C05", "C08", "C09"], "kind_free_text": "forked execution with CPU-progress hang detection"},
    ],
    "checks": checks,
    "not_applicable": na,
    "notes": "All checks are property-based tests (Hypothesis 6.168) against explicit oracles; see DESIGN.md. Repo fixes are recorded in known_findings.json ('fixed' entries suppress nothing).",
}
(VERIF / "MANIFEST.json").write_text(json.dumps(manifest, indent=1))
import jsonschema
jsonschema.validate(manifest, json.loads(Path("/root/.vp/MANIFEST.schema.json").read_text()))
es = json.loads(Path("/root/.vp/EVIDENCE.schema.json").read_text())
for c in checks:
    f = VERIF / c["evidence_file"]
    if f.exists():
        jsonschema.validate(json.loads(f.read_text()), es)
    else:
        print("missing evidence", f)
print("MANIFEST ok:", len(checks), "checks,", len(na), "not claimed")
