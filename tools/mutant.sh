#!/bin/bash
# usage: tools/mutant.sh <patch-file | revert:<commit>> <PROPERTY> [extra ./check args]
# Applies a mutation to a scratch copy of /repo (outside /repo and /verif), runs the
# property's check against it (no evidence written) and removes the copy.
set -u
HERE="$(cd "$(dirname "${BASH_SOURCE[0]}")/.." && pwd)"
SPEC="$1"; PID="$2"; shift 2
[[ "$SPEC" != revert:* ]] && SPEC="$(readlink -f "$SPEC")"
D=$(mktemp -d /tmp/yawv-mut-XXXXXX)
trap 'rm -rf "$D"' EXIT
mkdir -p "$D/repo" && cp -r /repo/src "$D/repo/src" && cp /repo/pyproject.toml "$D/repo/" 2>/dev/null
cd "$D/repo" && git init -q . 2>/dev/null
if [[ "$SPEC" == revert:* ]]; then
  git -C /repo show "${SPEC#revert:}" -- src | (cd "$D/repo" && patch -R -p1 -s) || { echo "MUTANT-ERROR: cannot revert $SPEC"; exit 3; }
else
  (cd "$D/repo" && patch -p1 -s < "$SPEC") || { echo "MUTANT-ERROR: cannot apply $SPEC"; exit 3; }
fi
cd "$HERE"
VERIF_REPO="$D/repo" ./check "$PID" --no-evidence "$@" 2>&1 | grep -E "VIOLATION|KNOWN|HARNESS|tier=" | cut -c1-220 | head -12
rc=${PIPESTATUS[0]}
echo "mutant $SPEC -> $PID exit=$rc"
exit $rc
