#!/venv/bin/python
"""usage: mkmutant.py <name> <file relative to /repo> <<< 'OLD\n=====\nNEW'  -> mutants/<name>.patch"""
import subprocess, sys, tempfile, shutil, os
name, rel = sys.argv[1], sys.argv[2]
old, new = sys.stdin.read().split("\n=====\n")
new = new.rstrip("\n")
old = old.rstrip("\n")
d = tempfile.mkdtemp(prefix="yawv-mk-", dir="/tmp")
try:
    os.makedirs(os.path.join(d, "a", os.path.dirname(rel))); os.makedirs(os.path.join(d, "b", os.path.dirname(rel)))
    src = open(os.path.join("/repo", rel)).read()
    assert src.count(old) == 1, f"pattern occurs {src.count(old)} times"
    open(os.path.join(d, "a", rel), "w").write(src)
    open(os.path.join(d, "b", rel), "w").write(src.replace(old, new))
    out = subprocess.run(["diff", "-u", os.path.join("a", rel), os.path.join("b", rel)], cwd=d, capture_output=True, text=True).stdout
    open(f"/verif/mutants/{name}.patch", "w").write(out)
    print(f"wrote mutants/{name}.patch ({len(out.splitlines())} lines)")
finally:
    shutil.rmtree(d)
