#!/bin/bash
# usage: tools/runall.sh [tier] [seeds...]   -- runs every registered check, prints one line per run
HERE="$(cd "$(dirname "${BASH_SOURCE[0]}")/.." && pwd)"; cd "$HERE"
TIER="${1:-quick}"; shift; SEEDS="${@:-1}"
IDS=$(/venv/bin/python -c "import json; print(' '.join(c['property_id'] for c in json.load(open('MANIFEST.json'))['checks']))")
for seed in $SEEDS; do for id in $IDS; do
  out=$(VERIF_SEED=$seed ./check $id --tier $TIER --no-evidence 2>/dev/null); rc=$?
  echo "rc=$rc $(echo "$out" | grep -E "tier=" | tail -1)"; echo "$out" | grep -E "VIOLATION|KNOWN-FINDING|^\[" | head -6
done; done
