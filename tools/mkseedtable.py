#!/venv/bin/python
"""Regenerates the table of seeded changes in DESIGN.md (between the seeded-table markers)
from seeded/*/meta.json.  Usage: tools/mkseedtable.py"""
import json
import re
from pathlib import Path

HERE = Path(__file__).resolve().parent.parent
rows = []
for d in sorted((HERE / "seeded").iterdir(), key=lambda p: (p.name[:3], p.name)):
    meta = d / "meta.json"
    if not meta.exists():
        continue
    m = json.loads(meta.read_text())
    res = "caught (exit 1)" if str(m["check_result"]["exit"]) == "1" else f"NOT caught (exit {m['check_result']['exit']})"
    if m.get("history"):
        res += " -- " + m["history"]
    rows.append(f"| {d.name} | {m['property']} | {m['needs_to_manifest']} | {res} |".replace("\n", " "))
table = "| seed | property | what it needs in order to manifest | quick check |\n|---|---|---|---|\n" + "\n".join(rows) + "\n"
p = HERE / "DESIGN.md"
s = p.read_text()
s2 = re.sub(r"(<!-- seeded-table-begin -->\n).*?(<!-- seeded-table-end -->)", lambda mo: mo.group(1) + table + mo.group(2), s, flags=re.S)
p.write_text(s2)
print(len(rows), "rows", "changed" if s != s2 else "unchanged")
