#!/venv/bin/python
"""Confirms an independently produced change and stores it under seeded/<name>/.

usage: tools/save_seed.py <src-dir with patch.diff demo.py [notes.md]> <PROPERTY> <name> <needs-to-manifest> [history]

Runs tools/verify_seed.sh (scratch copy of /repo: patch applies, 111 tests pass, the demonstration
fails with the change and passes without, the property's quick check against the changed copy),
and writes patch.diff, demo.py, notes.md and meta.json.  Refuses to save a change that is not
confirmed (tests fail, or the demonstration does not discriminate)."""
import json
import re
import shutil
import subprocess
import sys
from pathlib import Path

HERE = Path(__file__).resolve().parent.parent
src, prop, name, needs = Path(sys.argv[1]), sys.argv[2], sys.argv[3], sys.argv[4]
history = sys.argv[5] if len(sys.argv) > 5 else ""
import os
if os.environ.get("VERIFY_LOG"):  # verdict of a tools/verify_seed.sh run made just before
    out = Path(os.environ["VERIFY_LOG"]).read_text()
else:
    out = subprocess.run([str(HERE / "tools/verify_seed.sh"), str(src), prop, name], capture_output=True, text=True).stdout
print(out[:1500])
tests = re.search(r"tests_with_change: (.*)", out)
demo = re.search(r"demo_with_change_exit=(\d+) demo_without_change_exit=(\d+)", out)
chk = re.search(r"check_exit=(\d+)", out)
if not (tests and demo and chk):
    sys.exit("verify_seed.sh gave no verdict")
if "111 passed" not in tests.group(1) or " failed" in tests.group(1):
    sys.exit("NOT SAVED: tests do not pass with the change")
if demo.group(1) == "0" or demo.group(2) != "0":
    sys.exit("NOT SAVED: the demonstration does not discriminate")
sigs = sorted(set(l.strip()[:160] for l in out.splitlines() if l.startswith("[")))
dst = HERE / "seeded" / name
dst.mkdir(parents=True, exist_ok=True)
for f in ("patch.diff", "demo.py", "notes.md"):
    if (src / f).exists():
        shutil.copy(src / f, dst / f)
meta = {
    "property": prop,
    "origin": "independent sub-agent given only the property text and its own scratch worktree of /repo (nothing from /verif)",
    "needs_to_manifest": needs,
    "confirmed": {
        "tests_with_change": tests.group(1).strip(),
        "demo": demo.group(0),
        "how": "tools/verify_seed.sh: patch applied to a scratch copy of /repo outside /repo and /verif; pytest; demo.py with and without the change",
    },
    "check_result": {"cmd": f"VERIF_REPO=<scratch copy> ./check {prop} --tier quick", "exit": chk.group(1), "signatures": sigs[:6]},
}
if history:
    meta["history"] = history
(dst / "meta.json").write_text(json.dumps(meta, indent=1) + "\n")
print("saved", dst, "check_exit", chk.group(1))
