#!/venv/bin/python
"""
Self-tests of the verification machinery itself (not of yaw): the simulated MPI
runtime, the multiprocessing shim, the crash injector, the hang detector and the
brute-force oracle are exercised on small programs with known behaviour.

Run:  PYTHONPATH=/repo/src:/verif /venv/bin/python tools/test_machinery.py
Exit 0 if every assertion holds.
"""

import os
import sys
import tempfile
from pathlib import Path

HERE = Path(__file__).resolve().parent.parent
sys.path[:0] = [str(Path(os.environ.get("VERIF_REPO", "/repo")) / "src"), str(HERE)]
sys.path.append(str(HERE / ".deps"))

FAILED = []


def check(cond, what):
    print(("ok   " if cond else "FAIL ") + what)
    if not cond:
        FAILED.append(what)


# --------------------------------------------------------------------------
def test_fakempi():
    sys.path.insert(0, str(HERE / "vlib" / "fakempi"))
    from mpi4py import MPI

    def run(size, tape, fn):
        w = MPI.World(size, tape)
        MPI.set_world(w)
        try:
            return w, w.run(fn)
        finally:
            MPI.set_world(None)

    comm = MPI.COMM_WORLD

    # 1. non-overtaking: two messages of one sender arrive in order whatever the tape says
    def prog1(rank):
        if rank == 0:
            comm.send("a", dest=1, tag=7)
            comm.send("b", dest=1, tag=7)
        else:
            return [comm.recv(source=MPI.ANY_SOURCE, tag=7), comm.recv(source=MPI.ANY_SOURCE, tag=7)]

    good = True
    for tape in ([], [1, 1, 1], [0, 1, 0, 1, 1], [3, 2, 1, 0, 5, 4]):
        w, (outcome, detail, left) = run(2, tape, prog1)
        good &= outcome == "ok" and w.results[1] == ["a", "b"] and not left
    check(good, "fakempi: messages of one sender do not overtake each other")

    # 2. wildcard receive: with two senders both orders are reachable, and only those
    seen = set()

    def prog2(rank):
        if rank in (1, 2):
            comm.send(rank, dest=0, tag=1)
        else:
            return (comm.recv(source=MPI.ANY_SOURCE, tag=1), comm.recv(source=MPI.ANY_SOURCE, tag=1))

    for a in range(4):
        for b in range(4):
            for c in range(3):
                w, (outcome, _, _) = run(3, [a, b, c, a, c, b], prog2)
                if outcome == "ok":
                    seen.add(w.results[0])
    check(seen == {(1, 2), (2, 1)}, f"fakempi: wildcard receive matches senders in any order ({sorted(seen)})")

    # 3. synchronous send to a rank that never receives -> deadlock; eager -> terminates with a leftover
    def prog3(rank):
        if rank == 0:
            comm.send("x", dest=1, tag=3)
        return rank

    outcomes = set()
    leftovers = set()
    for t in range(4):
        w, (outcome, detail, left) = run(2, [t, 1 - t % 2, t], prog3)
        outcomes.add(outcome)
        leftovers.add(len(left))
    check(outcomes == {"ok", "deadlock"} and 1 in leftovers, f"fakempi: unmatched send = deadlock (synchronous) or leftover message (eager): {outcomes}")

    # 4. collectives: barrier blocks until all arrive; mismatched collectives are errors; bcast value
    def prog4(rank):
        v = comm.bcast({"k": rank} if rank == 0 else None, root=0)
        comm.Barrier()
        g = comm.gather(rank * 10, root=0)
        return v, g

    w, (outcome, _, _) = run(4, [2, 1, 3, 0, 1], prog4)
    check(outcome == "ok" and all(w.results[r][0] == {"k": 0} for r in range(4)) and w.results[0][1] == [0, 10, 20, 30] and w.results[2][1] is None, "fakempi: bcast / Barrier / gather")

    def prog5(rank):
        if rank == 0:
            comm.Barrier()
        else:
            comm.bcast(None, root=0)

    w, (outcome, detail, _) = run(2, [], prog5)
    check(outcome == "exception" and "mismatched" in detail, "fakempi: mismatched collectives are reported")

    def prog6(rank):
        if rank != 1:
            comm.Barrier()  # rank 1 never arrives
        return rank

    w, (outcome, detail, _) = run(3, [1, 2], prog6)
    check(outcome == "deadlock", "fakempi: a barrier that one rank never reaches is a deadlock")

    # 5. Split: colours and keys
    def prog7(rank):
        sub = comm.Split(rank % 2 if rank < 4 else MPI.UNDEFINED, -rank)
        if sub is None:
            return None
        return (sub.Get_rank(), sub.Get_size(), sub.bcast(rank, root=0))

    w, (outcome, _, _) = run(5, [1, 0, 2], prog7)
    check(outcome == "ok" and w.results[4] is None and w.results[0] == (1, 2, 2) and w.results[2] == (0, 2, 2) and w.results[3] == (0, 2, 3), f"fakempi: Split with colours, keys and UNDEFINED ({w.results})")


# --------------------------------------------------------------------------
def test_schedpool():
    import itertools

    from vlib import schedpool

    # completion orders of a w-worker pool with in-order dispatch: task i can only finish
    # after tasks i-w, ... have been dispatched; enumerate the tape space and compare with the definition
    def reachable(n, w):
        out = set()

        def rec(running, nxt, order):
            if not running:
                out.add(tuple(order))
                return
            for k in range(len(running)):
                r = list(running)
                done = r.pop(k)
                nn = nxt
                if nn < n:
                    r.append(nn)
                    nn += 1
                rec(r, nn, order + [done])

        rec(list(range(min(w, n))), min(w, n), [])
        return out

    ok = True
    for n, w in ((4, 2), (5, 3), (3, 5)):
        got = set()
        for tape in itertools.product(range(3), repeat=n):
            fake = schedpool.FakeMultiprocessing(list(tape))
            got.add(tuple(fake.Pool(w)._completion_order(n)))
        ok &= got == reachable(n, w)
    check(ok, "schedpool: tape space == set of completion orders reachable by a w-worker pool")
    check((0, 1, 2, 3) in reachable(4, 2) and (3, 2, 1, 0) not in reachable(4, 2) and (3, 2, 1, 0) in reachable(4, 4), "schedpool: unreachable orders are never produced (reverse order needs w >= n)")

    # queue + process: exception in the child does not reach the parent; deadlock is structural
    fake = schedpool.FakeMultiprocessing([])
    q = fake.Manager().Queue()

    def consumer():
        while q.get() != "stop":
            pass

    p = fake.Process(target=consumer)
    p.start()
    q.put(1)
    q.put("stop")
    p.join()
    check(p.exitcode == 0, "schedpool: writer-style process consumes the queue and exits")
    fake = schedpool.FakeMultiprocessing([])
    q = fake.Manager().Queue()
    p = fake.Process(target=lambda: q.get())
    p.start()
    try:
        p.join()
        dead = False
    except schedpool.Deadlock:
        dead = True
    check(dead and fake.stats.deadlock, "schedpool: joining a child that waits on an empty queue is detected as a deadlock")


# --------------------------------------------------------------------------
def test_crash_and_isolate():
    import time

    from vlib import crash
    from vlib.isolate import run_isolated

    with tempfile.TemporaryDirectory(dir="/dev/shm" if os.path.isdir("/dev/shm") else None) as tmp:
        tmp = Path(tmp)
        root = tmp / "world"
        log = tmp / "log"
        log.mkdir()

        def workload():
            root.mkdir(exist_ok=True)
            (root / "a").write_text("1")
            (root / "b").write_text("2")
            (root / "b").rename(root / "c")

        def reset():
            import shutil

            shutil.rmtree(root, ignore_errors=True)

        reset()
        paths, status = crash.discover(workload, root, log)
        reset()
        events, status = crash.count(workload, paths, log)
        kinds = [e[0] for e in events]
        check(status == 0 and kinds.count("rename") == 1 and kinds.count("write") == 2, f"crash: events enumerated ({kinds})")
        states = []
        for kind, n, _ in events:
            reset()
            killed, _ = crash.kill_at(workload, paths, kind, n, log)
            states.append((kind, n, killed, sorted(p.name for p in root.iterdir()) if root.exists() else None, (root / "a").read_text() if (root / "a").exists() else None))
        check(all(s[2] for s in states), "crash: the process is killed at every enumerated point")
        before_rename = [s for s in states if s[0] == "rename"][0]
        check(before_rename[3] == ["a", "b"], f"crash: kill happens BEFORE the n-th call executes ({before_rename})")
        first_write = [s for s in states if s[0] == "write"][0]
        check(first_write[4] == "", "crash: killed before the first write leaves the created, empty file")

    # data moved by a copy (shutil's fast path uses sendfile / copy_file_range): the state
    # "destination created but still empty" must be a reachable kill point
    with tempfile.TemporaryDirectory(dir="/dev/shm" if os.path.isdir("/dev/shm") else None) as tmp:
        tmp = Path(tmp)
        root, log = tmp / "world", tmp / "log"
        log.mkdir()
        root.mkdir()
        (tmp / "src.bin").write_bytes(b"x" * 4096)

        def copy_workload():
            import shutil

            shutil.copyfile(tmp / "src.bin", root / "dst.bin")

        paths, status = crash.discover(copy_workload, root, log)
        (root / "dst.bin").unlink()
        events, status = crash.count(copy_workload, paths, log)
        kinds = [e[0] for e in events]
        (root / "dst.bin").unlink()
        mover = [k for k in kinds if k in ("sendfile", "copy_file_range", "write")]
        check(bool(mover), f"crash: the data phase of a file copy is an enumerated event ({kinds})")
        if mover:
            killed, _ = crash.kill_at(copy_workload, paths, mover[0], 1, log)
            check(killed and (root / "dst.bin").exists() and (root / "dst.bin").stat().st_size == 0, "crash: killed before the data phase leaves the destination created and empty")

    def hang():
        import threading

        threading.Event().wait()

    t0 = time.monotonic()
    status, payload = run_isolated(hang, bound=2.0, gap=1.0)
    check(status == "hung" and time.monotonic() - t0 < 20, f"isolate: a blocked child is declared hung by lack of CPU progress ({status})")

    def busy():
        t = time.monotonic()
        while time.monotonic() - t < 5:
            pass
        return 42

    status, payload = run_isolated(busy, bound=1.0, gap=1.0)
    check(status == "ok" and payload == 42, f"isolate: a slow but working child is waited for ({status})")
    status, payload = run_isolated(lambda: 1 / 0)
    check(status == "exc" and payload[0] == "ZeroDivisionError", "isolate: exceptions are reported")


# --------------------------------------------------------------------------
def test_oracle():
    import numpy as np

    from vlib import pipeline as pl

    # three points on the equator, separations 0.1 and 0.25 rad
    cat = {"ra": [0.0, 0.1, 0.35], "dec": [0.0, 0.0, 0.0], "w": [1.0, 2.0, 4.0], "z": [0.5, 0.5, 0.9]}
    cen = pl.to_xyz([0.05, 0.35], [0.0, 0.0])
    s = pl.Sample(cat, cen)
    check(s.patch.tolist() == [0, 0, 1], "oracle: nearest-centre assignment")
    exp, amb, sw1, sw2 = pl.expected_counts(s, s, auto=True, binned2=True, edges=np.array([0.0, 0.7, 1.0]), closed="right", ang_min=np.array([[0.05, 0.05]]), ang_max=np.array([[0.3, 0.3]]), npatch=2)
    check(exp[0, 0, 0, 0] == 2.0 and exp[0, 0].sum() == 2.0 and exp[0, 1].sum() == 0.0, "oracle: unordered pair counted once with weight product, binned by redshift")
    check(sw1.tolist() == [[3.0, 0.0], [0.0, 4.0]], "oracle: per-bin per-patch weight sums")
    exp2, *_ = pl.expected_counts(s, s, auto=False, binned2=False, edges=np.array([0.0, 0.7, 1.0]), closed="right", ang_min=np.array([[0.05, 0.05]]), ang_max=np.array([[0.3, 0.3]]), npatch=2)
    check(exp2[0, 0, 0, 0] == 4.0 and exp2[0, 0, 0, 1] == 8.0 and exp2[0, 1, 1, 0] == 8.0, "oracle: cross counts are ordered pairs, second sample unbinned")
    m = pl.bin_membership(np.array([0.0, 0.7, 1.0, 1.1]), np.array([0.0, 0.7, 1.0]), "right").tolist()
    check(m == [-1, 0, 1, -1] and pl.bin_membership(np.array([0.0, 0.7, 1.0]), np.array([0.0, 0.7, 1.0]), "left").tolist() == [0, 1, -1], "oracle: closed-side rule")


if __name__ == "__main__":
    test_oracle()
    test_schedpool()
    test_fakempi()
    test_crash_and_isolate()
    print("FAILED: %d" % len(FAILED))
    sys.exit(1 if FAILED else 0)
